//! Deployments: configuration files for a client/server pair, launching the nodes (osv-node or the
//! shipped binaries), readiness, teardown.

use std::collections::HashSet;
use std::path::{Path, PathBuf};
use std::process::{Child, Command, Stdio};
use std::sync::Mutex;
use std::time::{Duration, Instant};

use serde_json::{json, Value};

use super::procfs;
use crate::real::{Cfg, Proto};

#[derive(Clone, Copy, Debug, PartialEq, Eq, Hash)]
pub enum Transport {
    Tcp,
    Tls,
    Ws,
    Wss,
    Quic,
}

pub const ALL_TRANSPORTS: [Transport; 5] = [Transport::Tcp, Transport::Tls, Transport::Ws, Transport::Wss, Transport::Quic];

impl Transport {
    pub fn name(&self) -> &'static str {
        match self {
            Transport::Tcp => "tcp",
            Transport::Tls => "tls",
            Transport::Ws => "ws",
            Transport::Wss => "wss",
            Transport::Quic => "quic",
        }
    }
}

static PORTS: Mutex<Option<HashSet<u16>>> = Mutex::new(None);

/// A loopback port that is free for TCP and UDP right now and has not been handed out before.
pub fn free_port() -> u16 {
    loop {
        let l = std::net::TcpListener::bind("127.0.0.1:0").expect("bind");
        let p = l.local_addr().unwrap().port();
        if p < 20000 {
            continue;
        }
        if std::net::UdpSocket::bind(("127.0.0.1", p)).is_err() {
            continue;
        }
        let mut g = PORTS.lock().unwrap();
        let set = g.get_or_insert_with(HashSet::new);
        if set.insert(p) {
            return p;
        }
    }
}

pub fn verif_root() -> PathBuf {
    if let Ok(r) = std::env::var("OSV_ROOT") {
        return PathBuf::from(r);
    }
    // the binaries live in /verif/harness/target*/.../ ; walk up to the directory holding `check`
    let mut p = std::env::current_exe().unwrap_or_default();
    while p.pop() {
        if p.join("check").exists() && p.join("harness").exists() {
            return p;
        }
    }
    PathBuf::from("/verif")
}

#[derive(Clone, Debug)]
pub struct Deploy {
    pub cfg: Cfg,
    pub transport: Transport,
    pub server_port: u16,
    pub client_port: u16,
    /// "tcp" | "udp" | "tcp_and_udp"
    pub client_mode: String,
    /// Shadowsocks server mode string; None = derived from transport/udp
    pub server_mode: Option<String>,
    pub udp: bool,
    pub workers: usize,
    pub dir: PathBuf,
    pub log_level: String,
    /// further entries of the server's configuration file (the file is a list: one process serves them all)
    pub extra_server_entries: Vec<Value>,
    /// WebSocket path of both sides: None = "/ws"; Some("") = no `path` key at all (the default of both programs)
    pub ws_path: Option<String>,
}

impl Deploy {
    pub fn new(cfg: Cfg, transport: Transport, udp: bool, workers: usize, dir: &Path) -> Deploy {
        std::fs::create_dir_all(dir).ok();
        Deploy { cfg, transport, server_port: free_port(), client_port: free_port(), client_mode: if udp { "tcp_and_udp".into() } else { "tcp".into() }, server_mode: None, udp, workers, dir: dir.to_path_buf(), log_level: "info".into(), extra_server_entries: Vec::new(), ws_path: None }
    }

    fn certs(&self) -> PathBuf {
        verif_root().join("certs")
    }

    pub fn server_mode_str(&self) -> String {
        if let Some(m) = &self.server_mode {
            return m.clone();
        }
        match (self.cfg.proto, self.transport, self.udp) {
            (Proto::Ss(_), Transport::Quic, _) => "quic".into(),
            (Proto::Ss(_), _, true) => "tcp_and_udp".into(),
            _ => "tcp".into(),
        }
    }

    fn ws_section(&self, client: bool) -> Value {
        let mut w = match self.ws_path.as_deref() {
            None => json!({"path": "/ws"}),
            Some("") => json!({}),
            Some(p) => json!({"path": p}),
        };
        if client {
            w["header"] = json!({"Host": "localhost"});
        }
        w
    }

    pub fn server_entry(&self) -> Value {
        let mut e = self.cfg.server_entry("127.0.0.1", self.server_port, &self.server_mode_str());
        let c = self.certs();
        let tls = json!({"certificateFile": c.join("leaf.crt"), "keyFile": c.join("leaf.key"), "serverName": "localhost"});
        match self.transport {
            Transport::Tcp => {}
            Transport::Tls => e["ssl"] = tls,
            Transport::Ws => e["ws"] = self.ws_section(false),
            Transport::Wss => {
                e["ssl"] = tls;
                e["ws"] = self.ws_section(false);
            }
            Transport::Quic => e["quic"] = tls,
        }
        e
    }

    pub fn client_entry(&self) -> Value {
        let mut e = self.cfg.client_entry("127.0.0.1", self.server_port);
        let c = self.certs();
        let tls = json!({"certificateFile": c.join("ca.crt"), "serverName": "localhost"});
        let ws = self.ws_section(true);
        match self.transport {
            Transport::Tcp => {}
            Transport::Tls => e["ssl"] = tls,
            Transport::Ws => e["ws"] = ws,
            Transport::Wss => {
                e["ssl"] = tls;
                e["ws"] = ws;
            }
            Transport::Quic => e["quic"] = tls,
        }
        e
    }

    pub fn server_json(&self) -> Value {
        let mut v = vec![self.server_entry()];
        v.extend(self.extra_server_entries.iter().cloned());
        Value::Array(v)
    }

    pub fn client_json(&self) -> Value {
        json!({"port": self.client_port, "mode": self.client_mode, "index": 0, "logger": {"level": self.log_level}, "servers": [self.client_entry()]})
    }

    pub fn describe(&self) -> Value {
        json!({"proto": self.cfg.proto.name(), "transport": self.transport.name(), "udp": self.udp, "users": self.cfg.users.len().max(self.cfg.uuids.len()), "workers": self.workers, "server_mode": self.server_mode_str(), "client_mode": self.client_mode, "server_config": self.server_json(), "client_config": self.client_json()})
    }
}

pub struct Node {
    pub child: Child,
    pub pid: u32,
    pub role: String,
    pub report: PathBuf,
    pub log: PathBuf,
}

impl Node {
    pub fn alive(&mut self) -> bool {
        matches!(self.child.try_wait(), Ok(None))
    }
    pub fn exit_status(&mut self) -> Option<i32> {
        match self.child.try_wait() {
            Ok(Some(s)) => Some(s.code().unwrap_or(-1)),
            _ => None,
        }
    }
    /// Panic events recorded by osv-node's hook.
    pub fn panics(&self) -> Vec<Value> {
        let mut v = Vec::new();
        if let Ok(s) = std::fs::read_to_string(&self.report) {
            for l in s.lines() {
                if let Ok(j) = serde_json::from_str::<Value>(l) {
                    if j["event"] == "panic" {
                        v.push(j);
                    }
                }
            }
        }
        v
    }
    pub fn tasks(&self) -> Option<u64> {
        procfs::tasks_from_stat_file(&format!("{}.stat", self.report.display()))
    }
    pub fn log_tail(&self, n: usize) -> String {
        let s = std::fs::read_to_string(&self.log).unwrap_or_default();
        let lines: Vec<&str> = s.lines().collect();
        lines[lines.len().saturating_sub(n)..].join("\n")
    }
    pub fn kill(&mut self) {
        let _ = self.child.kill();
        let _ = self.child.wait();
    }
}

impl Drop for Node {
    fn drop(&mut self) {
        self.kill();
    }
}

fn node_bin() -> PathBuf {
    let mut p = std::env::current_exe().unwrap_or_default();
    p.pop();
    p.join("osv-node")
}

/// Start one node. `shipped`: Some(path) runs the shipped binary (hooks off) instead of osv-node.
pub fn start_node(role: &str, config: &Value, dir: &Path, tag: &str, workers: usize, log_level: &str, nofile: Option<u64>, shipped: Option<&Path>) -> std::io::Result<Node> {
    std::fs::create_dir_all(dir)?;
    let cfg_path = dir.join(format!("{tag}-{role}.json"));
    std::fs::write(&cfg_path, serde_json::to_vec_pretty(config).unwrap())?;
    let report = dir.join(format!("{tag}-{role}.report"));
    let _ = std::fs::remove_file(&report);
    let log = dir.join(format!("{tag}-{role}.log"));
    let logf = std::fs::File::create(&log)?;
    let mut cmd = match shipped {
        Some(p) => {
            let mut c = Command::new(p);
            c.arg(&cfg_path).arg(log_level);
            c
        }
        None => {
            // diagnosis aid: OSV_STRACE=<role> runs that node under strace (network syscalls) -> <dir>/<tag>-<role>.strace
            let mut c = if std::env::var("OSV_STRACE").ok().as_deref() == Some(role) {
                let mut c = Command::new("strace");
                c.arg("-f").arg("-tt").arg("-o").arg(dir.join(format!("{tag}-{role}.strace"))).arg("-e").arg("trace=close,shutdown,connect,accept4,sendto,recvfrom,read,write,writev,setsockopt").arg("-s").arg("0").arg(node_bin());
                c
            } else {
                Command::new(node_bin())
            };
            c.arg(&cfg_path).arg(log_level).arg(role).arg(workers.to_string()).arg(&report);
            if let Some(n) = nofile {
                c.arg(n.to_string());
            }
            c
        }
    };
    cmd.env("RUST_BACKTRACE", "1").stdin(Stdio::null()).stdout(logf.try_clone()?).stderr(logf);
    let child = cmd.spawn()?;
    let pid = child.id();
    Ok(Node { child, pid, role: role.to_string(), report, log })
}

/// Wait until `pid` itself listens on TCP `port` (and/or has UDP `port` bound).
pub fn wait_ready(node: &mut Node, tcp: Option<u16>, udp: Option<u16>, timeout: Duration) -> Result<(), String> {
    let t0 = Instant::now();
    loop {
        if !node.alive() {
            let st = node.exit_status();
            return Err(format!("{} exited with {:?} during start-up: {}", node.role, st, node.log_tail(8)));
        }
        let (t, u) = procfs::bound_ports(node.pid);
        if tcp.map_or(true, |p| t.contains(&p)) && udp.map_or(true, |p| u.contains(&p)) {
            return Ok(());
        }
        if t0.elapsed() > timeout {
            return Err(format!("{} not ready after {:?} (tcp {:?} in {:?}, udp {:?} in {:?}): {}", node.role, timeout, tcp, t, udp, u, node.log_tail(8)));
        }
        std::thread::sleep(Duration::from_millis(15));
    }
}

pub struct Pair {
    pub deploy: Deploy,
    pub client: Node,
    pub server: Node,
}

/// Start server then client of a deployment and wait for both to listen.
pub fn start_pair(d: &Deploy, tag: &str) -> Result<Pair, String> {
    let mut server = start_node("server", &d.server_json(), &d.dir, tag, d.workers, &d.log_level, None, None).map_err(|e| e.to_string())?;
    let mode = d.server_mode_str();
    let (stcp, sudp) = match d.cfg.proto {
        Proto::Ss(_) => (mode == "tcp" || mode == "tcp_and_udp" || mode == "tcp_and_quic", mode == "udp" || mode == "tcp_and_udp" || mode == "quic" || mode == "tcp_and_quic"),
        _ => (true, d.transport == Transport::Quic),
    };
    wait_ready(&mut server, if stcp { Some(d.server_port) } else { None }, if sudp { Some(d.server_port) } else { None }, Duration::from_secs(15))?;
    let mut client = start_node("client", &d.client_json(), &d.dir, tag, d.workers, &d.log_level, None, None).map_err(|e| e.to_string())?;
    let ctcp = d.client_mode != "udp";
    let cudp = d.client_mode != "tcp";
    wait_ready(&mut client, if ctcp { Some(d.client_port) } else { None }, if cudp { Some(d.client_port) } else { None }, Duration::from_secs(15))?;
    Ok(Pair { deploy: d.clone(), client, server })
}

/// Like `start_pair`, but the client is told to reach the server at `link_port` (a forwarder in front of the server).
pub fn start_pair_via(d: &Deploy, tag: &str, link_port: u16) -> Result<Pair, String> {
    let mut server = start_node("server", &d.server_json(), &d.dir, tag, d.workers, &d.log_level, None, None).map_err(|e| e.to_string())?;
    let mode = d.server_mode_str();
    let (stcp, sudp) = match d.cfg.proto {
        Proto::Ss(_) => (mode == "tcp" || mode == "tcp_and_udp" || mode == "tcp_and_quic", mode == "udp" || mode == "tcp_and_udp" || mode == "quic" || mode == "tcp_and_quic"),
        _ => (true, d.transport == Transport::Quic),
    };
    wait_ready(&mut server, if stcp { Some(d.server_port) } else { None }, if sudp { Some(d.server_port) } else { None }, Duration::from_secs(15))?;
    let mut dc = d.clone();
    dc.server_port = link_port;
    let mut client = start_node("client", &dc.client_json(), &d.dir, tag, d.workers, &d.log_level, None, None).map_err(|e| e.to_string())?;
    let ctcp = d.client_mode != "udp";
    let cudp = d.client_mode != "tcp";
    wait_ready(&mut client, if ctcp { Some(d.client_port) } else { None }, if cudp { Some(d.client_port) } else { None }, Duration::from_secs(15))?;
    Ok(Pair { deploy: d.clone(), client, server })
}
