//! C09 at node level - concurrent flows on real multi-threaded nodes, meant to run on a ThreadSanitizer build
//! (the race detector watches the nodes while the result oracles judge every flow and datagram).
//! Workload: bursts of concurrent TCP flows and concurrent UDP applications through one client/server pair per
//! configuration, on 2, 4 and 8 worker threads.

use std::sync::Arc;
use std::time::Duration;

use serde_json::json;

use super::c01::work_dir;
use super::c02::{run_app, start_udp_target};
use super::endpoints::*;
use super::nodes::*;
use super::tcpflows::*;
use crate::checks::Args;
use crate::prng::Rng;
use crate::real::{Cfg, Proto};
use crate::report::Report;

async fn one_config(a: Args, idx: usize, proto: Proto, transport: Transport, udp: bool, workers: usize) -> Report {
    let mut rep = Report::new();
    let mut rng = Rng::derive(a.seed, 0xC09E, idx as u64);
    let users = match proto {
        Proto::Ss(m) if m.supports_eih() => 2,
        Proto::Vmess(_) => 2,
        _ => 0,
    };
    let cfg = Cfg::random(&mut rng, proto, users);
    let dir = work_dir(&a, &format!("c09-{idx}"));
    let d = Deploy::new(cfg, transport, udp, workers, &dir);
    let cfgname = format!("{}|{}|workers={}", proto.name(), transport.name(), workers);
    let (dd, tag) = (d.clone(), format!("c09-{idx}"));
    let mut pair = match tokio::task::spawn_blocking(move || start_pair(&dd, &tag)).await.unwrap() {
        Ok(p) => p,
        Err(e) => {
            rep.inconclusive(format!("nodes do not start: {}", e.lines().next().unwrap_or("")));
            return rep;
        }
    };
    let nonce = rng.next_u64();
    let reg = Registry::new(nonce);
    let Ok(target) = start_target(reg.clone()).await else { return rep };
    let n = if a.thorough { 48 } else { 24 };
    let mut specs = Vec::new();
    for k in 0..n {
        let mut s = random_spec(&mut rng, (idx as u64) << 20 | k as u64, &README_KINDS, false);
        s.c2s = s.c2s.min(65536);
        s.s2c = s.s2c.min(65536);
        s.pause_ms = 0;
        s.kind = README_KINDS[k % 4];
        specs.push(s);
    }
    // TCP burst and UDP applications at the same time
    let (reg2, d2, tp) = (reg.clone(), d.clone(), target.port);
    let tcp = tokio::spawn(async move { run_batch(reg2, &d2, tp, specs, n, Duration::from_secs(120)).await });
    let mut udp_apps = Vec::new();
    let mut udp_target = None;
    if udp {
        if let (Ok(t), Ok(t2)) = (start_udp_target(nonce, 0, 1, false).await, start_udp_target(nonce, 1, 1, false).await) {
            // every application talks to two targets in turn: its replies must come back labelled with the right one
            let tinfo = vec![(t.idx, t.port, "127.0.0.1".to_string()), (t2.idx, t2.port, "localhost".to_string())];
            for app in 0..8u16 {
                let plan: Vec<(usize, usize)> = (0..20).map(|k| ((k + app as usize) % 2, [64usize, 600, 1400, 4000][(k + app as usize) % 4])).collect();
                udp_apps.push(tokio::spawn(run_app(nonce, app, d.client_port, tinfo.clone(), plan, 1, Duration::from_secs(20))));
            }
            udp_target = Some((t, t2));
        }
    }
    for (spec, v) in tcp.await.unwrap_or_default() {
        rep.case(&(idx, spec.id), v.bytes_verified > 0 || v.symptom.is_some());
        rep.mon("concurrent_flows_judged", 1);
        rep.mon("payload_bytes_verified", v.bytes_verified as u64);
        if let Some(sym) = v.symptom {
            let sym2 = if v.stalled { format!("stall:{sym}") } else { sym };
            rep.violation(format!("C09|nodes|{}|{}", cfgname, sym2), format!("{cfgname}: a flow among {n} concurrent ones: {sym2}"), json!({"seed": a.seed, "deploy": d.describe(), "flow": spec.describe(), "observed": v.detail}));
        }
    }
    for (app, h) in udp_apps.into_iter().enumerate() {
        let Ok(r) = h.await else { continue };
        rep.mon("concurrent_datagrams_sent", r.sent.len() as u64);
        rep.mon("concurrent_replies_matched", r.replies.values().map(|c| *c as u64).sum());
        rep.case(&(idx, "udp-app", app), !r.replies.is_empty());
        for p in r.problems {
            rep.violation(format!("C09|nodes|{}|udp:{}", cfgname, crate::panicmon::normalise(&p)), format!("{cfgname}: application {app} among 8 concurrent ones: {p}"), json!({"seed": a.seed, "deploy": d.describe()}));
        }
        let answered = r.sent.keys().filter(|(t, q)| r.replies.contains_key(&(*t, *q, 1))).count();
        if answered * 2 < r.sent.len() {
            rep.violation(format!("C09|nodes|{}|udp:most-datagrams-of-an-application-unanswered", cfgname), format!("{cfgname}: application {app}: only {answered} of {} datagrams answered while 8 applications run concurrently", r.sent.len()), json!({"seed": a.seed, "deploy": d.describe()}));
        }
    }
    for (who, node) in [("client", &mut pair.client), ("server", &mut pair.server)] {
        for p in node.panics() {
            rep.violation(format!("C09|nodes|{}|{}-panic|{}", cfgname, who, p["frame"].as_str().unwrap_or("?")), format!("{who} task panicked: {}", p["message"]), json!({"panic": p}));
        }
        if !node.alive() {
            rep.violation(format!("C09|nodes|{}|{}-exited", cfgname, who), format!("{who} exited"), json!({"log": node.log_tail(10)}));
        }
    }
    if idx == 0 {
        rep.sample(json!({"config": cfgname, "concurrent_tcp_flows": n, "concurrent_udp_applications": if udp { 8 } else { 0 }, "oracles": ["positional streams", "unique datagram ids", "ThreadSanitizer on the node processes (when run on the tsan build)"]}));
    }
    drop(udp_target);
    drop(target);
    drop(pair);
    let _ = std::fs::remove_dir_all(&dir);
    rep
}

pub async fn run(a: &Args) -> Report {
    use refimpl::ss::Method as M;
    let mut m: Vec<(Proto, Transport, bool, usize)> = vec![(Proto::Ss(M::B3Aes128Gcm), Transport::Tcp, true, 4), (Proto::Vmess(3), Transport::Ws, true, 2), (Proto::Trojan, Transport::Tls, true, 8)];
    if a.thorough {
        m.extend([(Proto::Ss(M::B3ChaCha20Poly1305), Transport::Tls, true, 8), (Proto::Ss(M::Aes256Gcm), Transport::Ws, true, 2), (Proto::Vmess(4), Transport::Quic, true, 4), (Proto::Trojan, Transport::Quic, true, 4), (Proto::Ss(M::B3Aes256Gcm), Transport::Quic, false, 4)]);
    }
    // one configuration at a time: the point is concurrency INSIDE a node pair, and a sanitizer build is slow
    let sem = Arc::new(tokio::sync::Semaphore::new(2));
    let mut hs = Vec::new();
    for (idx, (p, t, u, w)) in m.into_iter().enumerate() {
        let a = a.clone();
        let sem = sem.clone();
        hs.push(tokio::spawn(async move {
            let _g = sem.acquire_owned().await.unwrap();
            one_config(a, idx, p, t, u, w).await
        }));
    }
    let mut rep = Report::new();
    for h in hs {
        if let Ok(r) = h.await {
            rep.merge(r);
        }
    }
    rep
}
