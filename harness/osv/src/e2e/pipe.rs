//! A byte pipe to a server over any of the five client-server transports (what the real client would open):
//! plain TCP, TLS, WebSocket, WebSocket over TLS, one bidirectional QUIC stream. Used by the hostile and
//! reference peers that talk to a running server directly.

use std::sync::Arc;
use std::time::Duration;

use futures::{SinkExt, StreamExt};
use tokio::io::{AsyncReadExt, AsyncWriteExt};

use super::nodes::{verif_root, Transport};

pub fn tls_client_config(alpn: bool) -> Option<tokio_rustls::rustls::ClientConfig> {
    use tokio_rustls::rustls::pki_types::pem::PemObject;
    use tokio_rustls::rustls::pki_types::CertificateDer;
    let _ = tokio_rustls::rustls::crypto::aws_lc_rs::default_provider().install_default();
    let cert = CertificateDer::from_pem_file(verif_root().join("certs").join("ca.crt")).ok()?;
    let mut roots = tokio_rustls::rustls::RootCertStore::empty();
    roots.add(cert).ok()?;
    let mut cfg = tokio_rustls::rustls::ClientConfig::builder().with_root_certificates(roots).with_no_client_auth();
    if alpn {
        cfg.alpn_protocols = vec![b"http/1.1".to_vec()];
    }
    Some(cfg)
}

pub trait AsyncStream: tokio::io::AsyncRead + tokio::io::AsyncWrite + Unpin + Send {}
impl<T: tokio::io::AsyncRead + tokio::io::AsyncWrite + Unpin + Send> AsyncStream for T {}

type BoxFut<'a, T> = std::pin::Pin<Box<dyn std::future::Future<Output = T> + Send + 'a>>;

pub trait WsPipe: Send {
    fn send(&mut self, b: Vec<u8>) -> BoxFut<'_, Result<(), String>>;
    fn recv(&mut self) -> BoxFut<'_, Result<Option<Vec<u8>>, String>>;
    fn close(&mut self) -> BoxFut<'_, ()>;
}

impl<T: tokio::io::AsyncRead + tokio::io::AsyncWrite + Unpin + Send> WsPipe for tokio_websockets::WebSocketStream<T> {
    fn send(&mut self, b: Vec<u8>) -> BoxFut<'_, Result<(), String>> {
        Box::pin(async move { SinkExt::send(self, tokio_websockets::Message::binary(bytes::Bytes::from(b))).await.map_err(|e| e.to_string()) })
    }
    fn recv(&mut self) -> BoxFut<'_, Result<Option<Vec<u8>>, String>> {
        Box::pin(async move {
            loop {
                match self.next().await {
                    None => return Ok(None),
                    Some(Err(e)) => return Err(e.to_string()),
                    Some(Ok(m)) if m.is_binary() => return Ok(Some(m.into_payload().to_vec())),
                    Some(Ok(m)) if m.is_close() => return Ok(None),
                    Some(Ok(_)) => continue,
                }
            }
        })
    }
    fn close(&mut self) -> BoxFut<'_, ()> {
        Box::pin(async move {
            let _ = SinkExt::close(self).await;
        })
    }
}

pub enum Pipe {
    Stream(Box<dyn AsyncStream>),
    Ws(Box<dyn WsPipe>),
    Quic(quinn::SendStream, quinn::RecvStream, quinn::Connection, quinn::Endpoint),
}

impl Pipe {
    /// Open the transport to 127.0.0.1:`port` the way a client of that transport would (4 s bound).
    pub async fn connect(via: Transport, port: u16) -> Result<Pipe, String> {
        Self::connect_within(via, port, Duration::from_secs(4)).await
    }

    /// The same with a bound of the caller's choosing (a path that delays the handshake on purpose).
    pub async fn connect_within(via: Transport, port: u16, bound: Duration) -> Result<Pipe, String> {
        let connect = async {
            let tcp = || async {
                let s = tokio::net::TcpStream::connect(("127.0.0.1", port)).await.map_err(|e| format!("connect: {e}"))?;
                let _ = s.set_nodelay(true);
                Ok::<_, String>(s)
            };
            let tls = |s: tokio::net::TcpStream| async move {
                let cfg = tls_client_config(false).ok_or("tls config")?;
                let name = tokio_rustls::rustls::pki_types::ServerName::try_from("localhost").map_err(|e| e.to_string())?;
                tokio_rustls::TlsConnector::from(Arc::new(cfg)).connect(name, s).await.map_err(|e| format!("tls handshake: {e}"))
            };
            let uri: http::Uri = format!("ws://localhost:{port}/ws").parse().unwrap();
            Ok::<Pipe, String>(match via {
                Transport::Tcp => Pipe::Stream(Box::new(tcp().await?)),
                Transport::Tls => Pipe::Stream(Box::new(tls(tcp().await?).await?)),
                Transport::Ws => Pipe::Ws(Box::new(tokio_websockets::ClientBuilder::from_uri(uri).connect_on(tcp().await?).await.map_err(|e| format!("websocket upgrade: {e}"))?.0)),
                Transport::Wss => Pipe::Ws(Box::new(tokio_websockets::ClientBuilder::from_uri(uri).connect_on(tls(tcp().await?).await?).await.map_err(|e| format!("websocket upgrade: {e}"))?.0)),
                Transport::Quic => {
                    let cfg = tls_client_config(true).ok_or("tls config")?;
                    let mut ep = quinn::Endpoint::client("0.0.0.0:0".parse().unwrap()).map_err(|e| e.to_string())?;
                    let qc = quinn::crypto::rustls::QuicClientConfig::try_from(cfg).map_err(|e| e.to_string())?;
                    ep.set_default_client_config(quinn::ClientConfig::new(Arc::new(qc)));
                    let conn = ep.connect(format!("127.0.0.1:{port}").parse().unwrap(), "localhost").map_err(|e| e.to_string())?.await.map_err(|e| format!("quic handshake: {e}"))?;
                    let (tx, rx) = conn.open_bi().await.map_err(|e| e.to_string())?;
                    Pipe::Quic(tx, rx, conn, ep)
                }
            })
        };
        match tokio::time::timeout(bound, connect).await {
            Ok(r) => r,
            Err(_) => Err(format!("transport handshake: no answer within {} s", bound.as_secs())),
        }
    }

    /// One write (a TCP/TLS/QUIC write, or one binary WebSocket message).
    pub async fn send(&mut self, b: &[u8]) -> Result<(), String> {
        match self {
            Pipe::Stream(s) => {
                s.write_all(b).await.map_err(|e| e.to_string())?;
                s.flush().await.map_err(|e| e.to_string())
            }
            Pipe::Ws(s) => s.send(b.to_vec()).await,
            Pipe::Quic(tx, ..) => tx.write_all(b).await.map_err(|e| e.to_string()),
        }
    }

    /// The next piece of what the peer sent; Ok(None) = end of stream.
    pub async fn recv(&mut self) -> Result<Option<Vec<u8>>, String> {
        let mut buf = vec![0u8; 16384];
        match self {
            Pipe::Stream(s) => {
                let n = s.read(&mut buf).await.map_err(|e| format!("read: {e}"))?;
                Ok(if n == 0 { None } else { Some(buf[..n].to_vec()) })
            }
            Pipe::Ws(s) => s.recv().await,
            Pipe::Quic(_, rx, ..) => Ok(rx.read(&mut buf).await.map_err(|e| format!("read: {e}"))?.map(|n| buf[..n].to_vec())),
        }
    }

    /// Orderly end of what this side sends (FIN / close frame / QUIC finish).
    pub async fn finish(&mut self) {
        match self {
            Pipe::Stream(s) => {
                let _ = s.shutdown().await;
            }
            Pipe::Ws(s) => s.close().await,
            Pipe::Quic(tx, ..) => {
                let _ = tx.finish();
            }
        }
    }

    /// Abrupt end: drop everything (QUIC: reset the stream and close the connection).
    pub fn abort(self) {
        if let Pipe::Quic(mut tx, mut rx, conn, _ep) = self {
            let _ = tx.reset(7u32.into());
            let _ = rx.stop(7u32.into());
            conn.close(1u32.into(), b"abort");
        }
    }
}

/// A path that is slow at one point: everything the client sends is forwarded to 127.0.0.1:`upstream`, but after the first
/// `after` bytes the path holds what follows for `hold` (once per connection); the way back is not delayed.
pub async fn slow_path(upstream: u16, after: usize, hold: Duration) -> Option<(u16, tokio::task::JoinHandle<()>)> {
    use tokio::io::{AsyncReadExt, AsyncWriteExt};
    let l = tokio::net::TcpListener::bind("127.0.0.1:0").await.ok()?;
    let port = l.local_addr().ok()?.port();
    let t = tokio::spawn(async move {
        while let Ok((c, _)) = l.accept().await {
            tokio::spawn(async move {
                let Ok(s) = tokio::net::TcpStream::connect(("127.0.0.1", upstream)).await else { return };
                let _ = s.set_nodelay(true);
                let (mut cr, mut cw) = c.into_split();
                let (mut sr, mut sw) = s.into_split();
                let back = tokio::spawn(async move {
                    let mut b = vec![0u8; 16384];
                    while let Ok(n) = sr.read(&mut b).await {
                        if n == 0 || cw.write_all(&b[..n]).await.is_err() {
                            break;
                        }
                    }
                    let _ = cw.shutdown().await;
                });
                let mut b = vec![0u8; 16384];
                let mut passed = 0usize;
                let mut held = false;
                while let Ok(n) = cr.read(&mut b).await {
                    if n == 0 {
                        break;
                    }
                    let mut chunk = &b[..n];
                    if !held && passed + chunk.len() > after {
                        let k = after.saturating_sub(passed);
                        if sw.write_all(&chunk[..k]).await.is_err() {
                            break;
                        }
                        chunk = &chunk[k..];
                        held = true;
                        tokio::time::sleep(hold).await;
                    }
                    passed += n;
                    if sw.write_all(chunk).await.is_err() {
                        break;
                    }
                }
                let _ = sw.shutdown().await;
                let _ = back.await;
            });
        }
    });
    Some((port, t))
}
