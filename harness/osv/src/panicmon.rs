//! Panic capture: a process-wide hook that records location, message and the innermost
//! in-repo frame (function path, no line numbers) into a thread-local, plus `catch`.

use std::cell::RefCell;
use std::collections::HashMap;
use std::panic::{self, AssertUnwindSafe};
use std::sync::Mutex;
use std::sync::Once;

#[derive(Clone, Debug)]
pub struct PanicInfo {
    pub location: String,
    pub message: String,
    /// innermost frame whose symbol lies in an octo_squirrel* crate (function path), or "?"
    pub repo_frame: String,
}

impl PanicInfo {
    /// `panic|<repo frame>|<normalised message>`
    pub fn signature(&self) -> String {
        format!("panic|{}|{}", self.repo_frame, normalise(&self.message))
    }
}

/// Replace digit runs and hex addresses so that signatures do not depend on concrete values.
pub fn normalise(msg: &str) -> String {
    let mut out = String::with_capacity(msg.len());
    let mut in_num = false;
    for c in msg.chars().take(160) {
        if c.is_ascii_digit() {
            if !in_num {
                out.push('N');
                in_num = true;
            }
        } else {
            in_num = false;
            out.push(if c == '\n' { ' ' } else { c });
        }
    }
    out
}

thread_local! {
    static LAST: RefCell<Option<PanicInfo>> = const { RefCell::new(None) };
    static QUIET: RefCell<bool> = const { RefCell::new(false) };
    static CONTEXT: RefCell<String> = const { RefCell::new(String::new()) };
}

static SEEN: Mutex<Option<HashMap<String, (u64, String)>>> = Mutex::new(None);
static INIT: Once = Once::new();

fn first_repo_frame(bt: &str) -> String {
    // std backtrace format: "  N: function" followed by "      at file:line:col".
    // With line-tables-only debug info inlined frames carry short names, so the frame is named
    // "<crate-relative file>::<function>" (no line numbers: they shift with every hook commit).
    let mut last_fn = String::new();
    for line in bt.lines() {
        let l = line.trim_start();
        if let Some(rest) = l.strip_prefix("at ") {
            for krate in ["octo-squirrel-client/src/", "octo-squirrel-server/src/", "octo-squirrel/src/"] {
                if let Some(i) = rest.find(krate) {
                    let path = &rest[i..];
                    let file = path.split(':').next().unwrap_or(path);
                    let f = last_fn.rsplit("::").find(|p| !p.starts_with('h') || p.len() != 17).unwrap_or(&last_fn);
                    return format!("{}::{}", file, f);
                }
            }
        } else if let Some(idx) = l.find(": ") {
            let (num, rest) = l.split_at(idx);
            if !num.is_empty() && num.chars().all(|c| c.is_ascii_digit()) {
                last_fn = rest[2..].trim().to_string();
            }
        }
    }
    "?".to_string()
}

pub fn install() {
    INIT.call_once(|| {
        let default = panic::take_hook();
        panic::set_hook(Box::new(move |info| {
            let location = info.location().map(|l| format!("{}:{}", l.file(), l.line())).unwrap_or_default();
            let message = if let Some(s) = info.payload().downcast_ref::<&str>() {
                s.to_string()
            } else if let Some(s) = info.payload().downcast_ref::<String>() {
                s.clone()
            } else {
                "<non-string panic>".to_string()
            };
            // the same library location/message can be reached from different in-repo callers: the harness names the
            // decoder it is driving so that the symbolisation cache does not mix them up
            let key = format!("{}|{}|{}", CONTEXT.with(|c| c.borrow().clone()), location, normalise(&message));
            let repo_frame = {
                let mut g = SEEN.lock().unwrap_or_else(|e| e.into_inner());
                let m = g.get_or_insert_with(HashMap::new);
                let e = m.entry(key).or_insert((0, String::new()));
                e.0 += 1;
                // symbolise the first occurrences and a sample afterwards; callers under the same
                // (location, message) are the same in practice, the sample guards against that assumption
                if e.0 <= 40 || e.0 % 64 == 0 {
                    let bt = std::backtrace::Backtrace::force_capture().to_string();
                    let f = first_repo_frame(&bt);
                    if e.1.is_empty() || e.1 == "?" {
                        e.1 = f.clone();
                    } else if f != e.1 && f != "?" {
                        // different caller under the same key: keep both visible
                        e.1 = f.clone();
                    }
                    f
                } else {
                    e.1.clone()
                }
            };
            let quiet = QUIET.with(|q| *q.borrow());
            LAST.with(|l| *l.borrow_mut() = Some(PanicInfo { location, message, repo_frame }));
            if !quiet {
                default(info);
            }
        }));
    });
}

/// Run `f`, converting a panic into `Err(PanicInfo)`. The default hook output is suppressed.
pub fn catch<T>(f: impl FnOnce() -> T) -> Result<T, PanicInfo> {
    install();
    QUIET.with(|q| *q.borrow_mut() = true);
    LAST.with(|l| *l.borrow_mut() = None);
    let r = panic::catch_unwind(AssertUnwindSafe(f));
    QUIET.with(|q| *q.borrow_mut() = false);
    match r {
        Ok(v) => Ok(v),
        Err(_) => Err(LAST.with(|l| l.borrow_mut().take()).unwrap_or(PanicInfo { location: String::new(), message: "<unknown panic>".into(), repo_frame: "?".into() })),
    }
}

/// Take the last panic recorded on this thread (for panics caught elsewhere, e.g. inside a tokio task).
pub fn take_last() -> Option<PanicInfo> {
    LAST.with(|l| l.borrow_mut().take())
}

pub fn set_quiet(q: bool) {
    QUIET.with(|x| *x.borrow_mut() = q);
}

/// Name what is being driven on this thread (part of the symbolisation cache key).
pub fn set_context(s: &str) {
    CONTEXT.with(|c| {
        let mut c = c.borrow_mut();
        if *c != s {
            *c = s.to_string();
        }
    });
}
