//! In-memory transport that hands out exactly the chosen pieces and then stays Pending (no EOF),
//! or ends with EOF when asked to. Used to put the real FramedRead under a chosen segmentation.

use std::collections::VecDeque;
use std::pin::Pin;
use std::task::{Context, Poll};

use tokio::io::{AsyncRead, AsyncWrite, ReadBuf};

pub struct Segments {
    pieces: VecDeque<Vec<u8>>,
    eof_at_end: bool,
    pub reads: usize,
}

impl Segments {
    pub fn new(pieces: Vec<Vec<u8>>, eof_at_end: bool) -> Self {
        Self { pieces: pieces.into_iter().filter(|p| !p.is_empty()).collect(), eof_at_end, reads: 0 }
    }
}

impl AsyncRead for Segments {
    fn poll_read(mut self: Pin<&mut Self>, _cx: &mut Context<'_>, buf: &mut ReadBuf<'_>) -> Poll<std::io::Result<()>> {
        match self.pieces.pop_front() {
            Some(mut p) => {
                self.reads += 1;
                let n = p.len().min(buf.remaining());
                buf.put_slice(&p[..n]);
                if n < p.len() {
                    let rest = p.split_off(n);
                    self.pieces.push_front(rest);
                }
                Poll::Ready(Ok(()))
            }
            None => {
                if self.eof_at_end {
                    Poll::Ready(Ok(()))
                } else {
                    // nothing will ever arrive: no waker is registered on purpose, the paused tokio clock
                    // then proves that the reader has nothing left to deliver
                    Poll::Pending
                }
            }
        }
    }
}

impl AsyncWrite for Segments {
    fn poll_write(self: Pin<&mut Self>, _cx: &mut Context<'_>, buf: &[u8]) -> Poll<std::io::Result<usize>> {
        Poll::Ready(Ok(buf.len()))
    }
    fn poll_flush(self: Pin<&mut Self>, _cx: &mut Context<'_>) -> Poll<std::io::Result<()>> {
        Poll::Ready(Ok(()))
    }
    fn poll_shutdown(self: Pin<&mut Self>, _cx: &mut Context<'_>) -> Poll<std::io::Result<()>> {
        Poll::Ready(Ok(()))
    }
}
