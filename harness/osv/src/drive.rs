//! Drivers that call the real codecs the way tokio's FramedRead does, with panic capture.

use bytes::BytesMut;

use crate::panicmon::{self, PanicInfo};
use crate::real::{RealClient, RealClientDgram, RealServer, SrvItem};

#[derive(Debug, Clone)]
pub enum Fail {
    Panic(PanicInfo),
    Err(String),
}

impl Fail {
    pub fn describe(&self) -> String {
        match self {
            Fail::Panic(p) => format!("panic at {} ({}): {}", p.location, p.repo_frame, p.message),
            Fail::Err(e) => format!("error: {e}"),
        }
    }
}

/// Result of draining a decoder: the items obtained before the stop, and why it stopped.
pub struct Drained<T> {
    pub items: Vec<T>,
    pub stop: Option<Fail>,
}

/// Call `decode` while it yields items (FramedRead does exactly this between reads).
/// `lenient`: after `None`, try again as long as the previous call consumed input - used where a
/// check wants to judge the wire format only and leave stalls to C04.
pub fn drain<T>(buf: &mut BytesMut, lenient: bool, mut dec: impl FnMut(&mut BytesMut) -> anyhow::Result<Option<T>>) -> Drained<T> {
    let mut items = Vec::new();
    loop {
        let before = buf.len();
        match panicmon::catch(|| dec(buf)) {
            Err(p) => return Drained { items, stop: Some(Fail::Panic(p)) },
            Ok(Err(e)) => return Drained { items, stop: Some(Fail::Err(format!("{e:#}"))) },
            Ok(Ok(Some(it))) => items.push(it),
            Ok(Ok(None)) => {
                if lenient && buf.len() < before && !buf.is_empty() {
                    continue;
                }
                return Drained { items, stop: None };
            }
        }
    }
}

pub fn drain_server(c: &mut dyn RealServer, buf: &mut BytesMut, lenient: bool) -> Drained<SrvItem> {
    drain(buf, lenient, |b| c.decode(b))
}

pub fn drain_client(c: &mut dyn RealClient, buf: &mut BytesMut, lenient: bool) -> Drained<Vec<u8>> {
    drain(buf, lenient, |b| c.decode(b))
}

pub fn drain_client_dgram(c: &mut dyn RealClientDgram, buf: &mut BytesMut, lenient: bool) -> Drained<(Vec<u8>, Option<refimpl::addr::Addr>)> {
    drain(buf, lenient, |b| c.decode(b))
}

/// Encode with panic capture.
pub fn guarded<T>(f: impl FnOnce() -> anyhow::Result<T>) -> Result<T, Fail> {
    match panicmon::catch(f) {
        Err(p) => Err(Fail::Panic(p)),
        Ok(Err(e)) => Err(Fail::Err(format!("{e:#}"))),
        Ok(Ok(v)) => Ok(v),
    }
}
