//! Constructors for the *real* codec types of /repo behind small dynamic interfaces,
//! so that one generic driver can exercise every protocol/cipher/role.

use std::net::SocketAddr;
use std::sync::Arc;

use anyhow::{anyhow, Result};
use bytes::BytesMut;
use octo_squirrel::codec::aead::CipherKind;
use octo_squirrel::codec::shadowsocks::udp as ssudp;
use octo_squirrel::config::ServerConfig;
use octo_squirrel::manager::shadowsocks::{ServerUser, ServerUserManager};
use octo_squirrel::protocol::address::Address;
use octo_squirrel::protocol::shadowsocks::Mode;
use octo_squirrel_client::client::verif as cv;
use octo_squirrel_server::server::verif as sv;
use refimpl::addr::Addr;
use refimpl::crypto::b64_encode;
use refimpl::ss::Method;
use serde_json::{json, Value};
use tokio_util::codec::{Decoder, Encoder};

use crate::prng::Rng;

pub fn to_address(a: &Addr) -> Address {
    match a {
        Addr::V4(ip, p) => Address::Socket(SocketAddr::from((*ip, *p))),
        Addr::V6(ip, p) => Address::Socket(SocketAddr::from((*ip, *p))),
        Addr::Domain(n, p) => Address::Domain(String::from_utf8(n.clone()).expect("harness only builds UTF-8 names"), *p),
    }
}

pub fn from_address(a: &Address) -> Addr {
    match a {
        Address::Socket(SocketAddr::V4(v)) => Addr::V4(v.ip().octets(), v.port()),
        Address::Socket(SocketAddr::V6(v)) => Addr::V6(v.ip().octets(), v.port()),
        Address::Domain(h, p) => Addr::Domain(h.as_bytes().to_vec(), *p),
    }
}

pub use crate::cfg::*;

fn client_cfg(c: &Cfg) -> Result<ServerConfig<cv::SslConfig>> {
    Ok(serde_json::from_value(c.client_entry("127.0.0.1", 1))?)
}

fn server_cfg(c: &Cfg) -> Result<ServerConfig<sv::SslConfig>> {
    Ok(serde_json::from_value(c.server_entry("127.0.0.1", 1, "tcp_and_udp"))?)
}

pub fn cipher_kind(m: Method) -> CipherKind {
    serde_json::from_value(json!(m.name())).expect("cipher kind")
}

// ---------------------------------------------------------------------------------------------
// dynamic interfaces

#[derive(Clone, Debug, PartialEq, Eq)]
pub enum SrvItem {
    Connect(Vec<u8>, Addr),
    Tcp(Vec<u8>),
    Udp(Vec<u8>, Addr),
}

impl SrvItem {
    pub fn data(&self) -> &[u8] {
        match self {
            SrvItem::Connect(d, _) | SrvItem::Tcp(d) | SrvItem::Udp(d, _) => d,
        }
    }
}

fn conv_in(i: sv::InboundIn) -> SrvItem {
    match i {
        sv::InboundIn::ConnectTcp(b, a) => SrvItem::Connect(b.to_vec(), from_address(&a)),
        sv::InboundIn::RelayTcp(b) => SrvItem::Tcp(b.to_vec()),
        sv::InboundIn::RelayUdp(b, a) => SrvItem::Udp(b.to_vec(), from_address(&a)),
    }
}

/// Server-side inbound codec (what `startup_tcp`/`startup_quic` put into `Framed`).
pub trait RealServer: Send {
    fn decode(&mut self, src: &mut BytesMut) -> Result<Option<SrvItem>>;
    fn encode_tcp(&mut self, data: &[u8], dst: &mut BytesMut) -> Result<()>;
    fn encode_udp(&mut self, data: &[u8], from: SocketAddr, dst: &mut BytesMut) -> Result<()>;
}

struct SrvWrap<C>(C);

impl<C> RealServer for SrvWrap<C>
where
    C: Encoder<sv::OutboundIn, Error = anyhow::Error> + Decoder<Item = sv::InboundIn, Error = anyhow::Error> + Send,
{
    fn decode(&mut self, src: &mut BytesMut) -> Result<Option<SrvItem>> {
        Ok(self.0.decode(src)?.map(conv_in))
    }
    fn encode_tcp(&mut self, data: &[u8], dst: &mut BytesMut) -> Result<()> {
        self.0.encode(sv::OutboundIn::Tcp(BytesMut::from(data)), dst)
    }
    fn encode_udp(&mut self, data: &[u8], from: SocketAddr, dst: &mut BytesMut) -> Result<()> {
        self.0.encode(sv::OutboundIn::Udp((BytesMut::from(data), from)), dst)
    }
}

/// Shared server-side state (what one listening server shares among its connections).
pub enum ServerShared {
    Ss16(sv::shadowsocks::ServerContext<16>),
    Ss32(sv::shadowsocks::ServerContext<32>),
    Other(ServerConfig<sv::SslConfig>),
}

pub fn server_shared(c: &Cfg) -> Result<ServerShared> {
    let cfg = server_cfg(c)?;
    match c.proto {
        Proto::Ss(m) => {
            if m.key_len() == 16 {
                let mut um: ServerUserManager<16> = ServerUserManager::new();
                for u in cfg.user.iter() {
                    um.add_user(ServerUser::try_from(u).map_err(|e| anyhow!(e))?);
                }
                Ok(ServerShared::Ss16(sv::shadowsocks::ServerContext::init(&cfg, Arc::new(um))?))
            } else {
                let mut um: ServerUserManager<32> = ServerUserManager::new();
                for u in cfg.user.iter() {
                    um.add_user(ServerUser::try_from(u).map_err(|e| anyhow!(e))?);
                }
                Ok(ServerShared::Ss32(sv::shadowsocks::ServerContext::init(&cfg, Arc::new(um))?))
            }
        }
        _ => Ok(ServerShared::Other(cfg)),
    }
}

/// A fresh per-connection server codec, exactly as the accept loop creates one.
pub fn server_codec(c: &Cfg, shared: &ServerShared) -> Result<Box<dyn RealServer>> {
    Ok(match shared {
        ServerShared::Ss16(ctx) => Box::new(SrvWrap(sv::shadowsocks::PayloadCodec::from(ctx))),
        ServerShared::Ss32(ctx) => Box::new(SrvWrap(sv::shadowsocks::PayloadCodec::from(ctx))),
        ServerShared::Other(cfg) => match c.proto {
            Proto::Vmess(_) => Box::new(SrvWrap(sv::vmess::new_codec(cfg)?)),
            _ => Box::new(SrvWrap(sv::trojan::new_codec(cfg)?)),
        },
    })
}

/// Client-side TCP outbound codec (what `try_transfer_tcp` puts into `Framed`/`WebSocketFramed`).
pub trait RealClient: Send {
    fn encode(&mut self, data: &[u8], dst: &mut BytesMut) -> Result<()>;
    fn decode(&mut self, src: &mut BytesMut) -> Result<Option<Vec<u8>>>;
}

struct CliWrap<C>(C);

impl<C> RealClient for CliWrap<C>
where
    C: Encoder<BytesMut, Error = anyhow::Error> + Decoder<Item = BytesMut, Error = anyhow::Error> + Send,
{
    fn encode(&mut self, data: &[u8], dst: &mut BytesMut) -> Result<()> {
        self.0.encode(BytesMut::from(data), dst)
    }
    fn decode(&mut self, src: &mut BytesMut) -> Result<Option<Vec<u8>>> {
        Ok(self.0.decode(src)?.map(|b| b.to_vec()))
    }
}

pub enum ClientShared {
    Ss16(cv::shadowsocks::tcp::ClientContext<16>),
    Ss32(cv::shadowsocks::tcp::ClientContext<32>),
    Other(ServerConfig<cv::SslConfig>),
}

pub fn client_shared(c: &Cfg) -> Result<ClientShared> {
    let cfg = client_cfg(c)?;
    Ok(match c.proto {
        Proto::Ss(m) if m.key_len() == 16 => ClientShared::Ss16(cv::shadowsocks::tcp::ClientContext::try_from(&cfg)?),
        Proto::Ss(_) => ClientShared::Ss32(cv::shadowsocks::tcp::ClientContext::try_from(&cfg)?),
        _ => ClientShared::Other(cfg),
    })
}

/// A fresh per-flow client codec for a TCP flow to `target`.
pub fn client_codec(c: &Cfg, shared: &ClientShared, target: &Address) -> Result<Box<dyn RealClient>> {
    Ok(match shared {
        ClientShared::Ss16(ctx) => Box::new(CliWrap(cv::shadowsocks::tcp::new_payload_codec(target, ctx.clone())?)),
        ClientShared::Ss32(ctx) => Box::new(CliWrap(cv::shadowsocks::tcp::new_payload_codec(target, ctx.clone())?)),
        ClientShared::Other(cfg) => match c.proto {
            Proto::Vmess(_) => Box::new(CliWrap(cv::vmess::tcp::new_codec(target, (cfg.cipher, cfg.password.clone()))?)),
            _ => Box::new(CliWrap(cv::trojan::tcp::new_codec(target, cfg.password.clone())?)),
        },
    })
}

/// Client-side codec of a datagram-in-stream binding (VMess UDP / Trojan UDP).
pub trait RealClientDgram: Send {
    fn encode(&mut self, data: &[u8], target: &Address, dst: &mut BytesMut) -> Result<()>;
    /// (payload, address carried with the datagram if the protocol has one)
    fn decode(&mut self, src: &mut BytesMut) -> Result<Option<(Vec<u8>, Option<Addr>)>>;
}

struct VmessDgram(cv::vmess::ClientAEADCodec);
impl RealClientDgram for VmessDgram {
    fn encode(&mut self, data: &[u8], _t: &Address, dst: &mut BytesMut) -> Result<()> {
        self.0.encode(BytesMut::from(data), dst)
    }
    fn decode(&mut self, src: &mut BytesMut) -> Result<Option<(Vec<u8>, Option<Addr>)>> {
        Ok(self.0.decode(src)?.map(|b| (b.to_vec(), None)))
    }
}
struct TrojanDgram(cv::trojan::udp::ClientCodec);
impl RealClientDgram for TrojanDgram {
    fn encode(&mut self, data: &[u8], t: &Address, dst: &mut BytesMut) -> Result<()> {
        self.0.encode((BytesMut::from(data), t.clone()), dst)
    }
    fn decode(&mut self, src: &mut BytesMut) -> Result<Option<(Vec<u8>, Option<Addr>)>> {
        Ok(self.0.decode(src)?.map(|(b, a)| (b.to_vec(), Some(from_address(&a)))))
    }
}

pub fn client_dgram_codec(c: &Cfg, target: &Address) -> Result<Box<dyn RealClientDgram>> {
    let cfg = client_cfg(c)?;
    Ok(match c.proto {
        Proto::Vmess(_) => Box::new(VmessDgram(cv::vmess::udp::new_codec(target, &cfg)?)),
        Proto::Trojan => Box::new(TrojanDgram(cv::trojan::udp::ClientCodec::new(cfg.password.as_bytes(), 3, target.clone()))),
        _ => return Err(anyhow!("shadowsocks has no datagram-in-stream mode")),
    })
}

// ---------------------------------------------------------------------------------------------
// Shadowsocks UDP (plain datagrams)

/// What the real UDP decoders return.
#[derive(Clone, Debug)]
pub struct UdpDecoded {
    pub payload: Vec<u8>,
    pub addr: Addr,
    pub client_session_id: u64,
    pub server_session_id: u64,
    pub packet_id: u64,
    pub user: Option<String>,
}

pub trait RealSsUdpClient: Send {
    /// encode the next datagram of this session (packet id advances by one)
    fn encode(&mut self, data: &[u8], target: &Address, dst: &mut BytesMut) -> Result<()>;
    /// decode a server reply through the client's codec *including* its replay filter
    fn decode(&mut self, src: &mut BytesMut) -> Result<Option<(Vec<u8>, Addr)>>;
    fn set_packet_id(&mut self, id: u64);
    fn session_ids(&self) -> (u64, u64, u64);
}

struct SsUdpClient<const N: usize>(cv::shadowsocks::udp::DatagramPacketCodec<'static, N>);

impl<const N: usize> RealSsUdpClient for SsUdpClient<N> {
    fn encode(&mut self, data: &[u8], target: &Address, dst: &mut BytesMut) -> Result<()> {
        self.0.encode((BytesMut::from(data), target.clone()), dst)
    }
    fn decode(&mut self, src: &mut BytesMut) -> Result<Option<(Vec<u8>, Addr)>> {
        Ok(self.0.decode(src)?.map(|(b, a)| (b.to_vec(), from_address(&a))))
    }
    fn set_packet_id(&mut self, id: u64) {
        self.0.verif_set_packet_id(id)
    }
    fn session_ids(&self) -> (u64, u64, u64) {
        let s = self.0.verif_session();
        (s.client_session_id, s.server_session_id, s.packet_id)
    }
}

fn leak_keys<const N: usize>(psk: &[u8], ipsks: &[Vec<u8>]) -> (&'static [u8; N], &'static Vec<[u8; N]>) {
    // stable heap addresses for the whole process: the global cipher cache of /repo is keyed by key *address*,
    // the harness must never manufacture address reuse (DESIGN section 8)
    let mut k = [0u8; N];
    k.copy_from_slice(psk);
    let ik: Vec<[u8; N]> = ipsks
        .iter()
        .map(|x| {
            let mut a = [0u8; N];
            a.copy_from_slice(x);
            a
        })
        .collect();
    (Box::leak(Box::new(k)), Box::leak(Box::new(ik)))
}

/// A new client UDP session (one local binding), keys taken the way the spec says (EVP for legacy ciphers).
pub fn ss_udp_client(c: &Cfg) -> Box<dyn RealSsUdpClient> {
    let m = c.method().expect("ss");
    let keys = c.ref_client_keys();
    let kind = cipher_kind(m);
    if m.key_len() == 16 {
        let (k, ik) = leak_keys::<16>(&keys.psk, &keys.ipsks);
        Box::new(SsUdpClient::<16>(cv::shadowsocks::udp::DatagramPacketCodec::new(ssudp::SessionCodec::new(ssudp::Context::new(Mode::Client, None, k, ik), ssudp::AEADCipherCodec::new(kind)), kind)))
    } else {
        let (k, ik) = leak_keys::<32>(&keys.psk, &keys.ipsks);
        Box::new(SsUdpClient::<32>(cv::shadowsocks::udp::DatagramPacketCodec::new(ssudp::SessionCodec::new(ssudp::Context::new(Mode::Client, None, k, ik), ssudp::AEADCipherCodec::new(kind)), kind)))
    }
}

pub trait RealSsUdpServer: Send + Sync {
    fn decode(&self, src: &mut BytesMut) -> Result<Option<UdpDecoded>>;
    /// encode a reply for the session described by `to` (ids and user as the server loop would fill them in)
    fn encode(&self, data: &[u8], from: &Address, client_session_id: u64, server_session_id: u64, packet_id: u64, user: Option<&str>, dst: &mut BytesMut) -> Result<()>;
}

struct SsUdpServer<const N: usize> {
    codec: ssudp::SessionCodec<'static, N>,
    um: Arc<ServerUserManager<N>>,
}

// SessionCodec holds only shared references and an Arc; the server uses it from one task, the harness shares it on purpose (C09)
unsafe impl<const N: usize> Sync for SsUdpServer<N> {}

impl<const N: usize> RealSsUdpServer for SsUdpServer<N> {
    fn decode(&self, src: &mut BytesMut) -> Result<Option<UdpDecoded>> {
        Ok(self.codec.decode(src)?.map(|(b, a, s)| UdpDecoded {
            payload: b.to_vec(),
            addr: from_address(&a),
            client_session_id: s.client_session_id,
            server_session_id: s.server_session_id,
            packet_id: s.packet_id,
            user: s.user.as_ref().map(|u| u.name.clone()),
        }))
    }
    fn encode(&self, data: &[u8], from: &Address, client_session_id: u64, server_session_id: u64, packet_id: u64, user: Option<&str>, dst: &mut BytesMut) -> Result<()> {
        let user = match user {
            // the manager's own Arc: the cipher cache of /repo is keyed by the *address* of the key, so the harness must
            // hand over the same allocation the real server would (a fresh clone would manufacture address reuse)
            Some(n) => {
                let h = self.um.users_iter().find(|u| u.name == n).ok_or(anyhow!("no such user"))?.identity_hash();
                self.um.clone_user_by_hash(&h)
            }
            None => None,
        };
        let s = ssudp::Session::new(client_session_id, server_session_id, packet_id, user);
        self.codec.encode((BytesMut::from(data), from.clone(), s), dst)
    }
}

pub fn ss_udp_server(c: &Cfg) -> Result<Box<dyn RealSsUdpServer>> {
    let m = c.method().expect("ss");
    let cfg = server_cfg(c)?;
    let psk = c.ref_server_psk();
    if m.key_len() == 16 {
        let mut um: ServerUserManager<16> = ServerUserManager::new();
        for u in cfg.user.iter() {
            um.add_user(ServerUser::try_from(u).map_err(|e| anyhow!(e))?);
        }
        let um = Arc::new(um);
        let (k, ik) = leak_keys::<16>(&psk, &[]);
        let codec = sv::shadowsocks::new_udp_codec(&cfg, ssudp::Context::new(Mode::Server, Some(um.clone()), k, ik))?;
        Ok(Box::new(SsUdpServer::<16> { codec, um }))
    } else {
        let mut um: ServerUserManager<32> = ServerUserManager::new();
        for u in cfg.user.iter() {
            um.add_user(ServerUser::try_from(u).map_err(|e| anyhow!(e))?);
        }
        let um = Arc::new(um);
        let (k, ik) = leak_keys::<32>(&psk, &[]);
        let codec = sv::shadowsocks::new_udp_codec(&cfg, ssudp::Context::new(Mode::Server, Some(um.clone()), k, ik))?;
        Ok(Box::new(SsUdpServer::<32> { codec, um }))
    }
}

// ---------------------------------------------------------------------------------------------
// tokio_util adapters so the real FramedRead / WebSocketFramed can drive the dynamic codecs

pub struct ServerDec(pub Box<dyn RealServer>);
impl Decoder for ServerDec {
    type Item = SrvItem;
    type Error = anyhow::Error;
    fn decode(&mut self, src: &mut BytesMut) -> Result<Option<SrvItem>> {
        self.0.decode(src)
    }
}
impl Encoder<Vec<u8>> for ServerDec {
    type Error = anyhow::Error;
    fn encode(&mut self, item: Vec<u8>, dst: &mut BytesMut) -> Result<()> {
        self.0.encode_tcp(&item, dst)
    }
}

pub struct ClientDec(pub Box<dyn RealClient>);
impl Decoder for ClientDec {
    type Item = Vec<u8>;
    type Error = anyhow::Error;
    fn decode(&mut self, src: &mut BytesMut) -> Result<Option<Vec<u8>>> {
        self.0.decode(src)
    }
}
impl Encoder<Vec<u8>> for ClientDec {
    type Error = anyhow::Error;
    fn encode(&mut self, item: Vec<u8>, dst: &mut BytesMut) -> Result<()> {
        self.0.encode(&item, dst)
    }
}

pub struct ClientDgramDec(pub Box<dyn RealClientDgram>);
impl Decoder for ClientDgramDec {
    type Item = (Vec<u8>, Option<Addr>);
    type Error = anyhow::Error;
    fn decode(&mut self, src: &mut BytesMut) -> Result<Option<Self::Item>> {
        self.0.decode(src)
    }
}
impl Encoder<Vec<u8>> for ClientDgramDec {
    type Error = anyhow::Error;
    fn encode(&mut self, _item: Vec<u8>, _dst: &mut BytesMut) -> Result<()> {
        Err(anyhow!("not used"))
    }
}

// ---------------------------------------------------------------------------------------------
// one decoder type for every role, yielding flattened events

#[derive(Clone, Debug, PartialEq, Eq)]
pub enum Ev {
    Addr(Addr),
    Bytes(Vec<u8>),
    Dgram(Vec<u8>, Option<Addr>),
}

/// Any of the real decoders behind `tokio_util::codec::Decoder`, so the real FramedRead / WebSocketFramed drive it.
pub struct AnyDec(pub Box<dyn FnMut(&mut BytesMut) -> Result<Option<Vec<Ev>>> + Send>);

impl Decoder for AnyDec {
    type Item = Vec<Ev>;
    type Error = anyhow::Error;
    fn decode(&mut self, src: &mut BytesMut) -> Result<Option<Vec<Ev>>> {
        (self.0)(src)
    }
}

impl Encoder<Vec<u8>> for AnyDec {
    type Error = anyhow::Error;
    fn encode(&mut self, _item: Vec<u8>, _dst: &mut BytesMut) -> Result<()> {
        Err(anyhow!("AnyDec does not encode"))
    }
}

pub fn any_server(mut s: Box<dyn RealServer>) -> AnyDec {
    AnyDec(Box::new(move |b| {
        Ok(s.decode(b)?.map(|it| match it {
            SrvItem::Connect(d, a) => vec![Ev::Addr(a), Ev::Bytes(d)],
            SrvItem::Tcp(d) => vec![Ev::Bytes(d)],
            SrvItem::Udp(d, a) => vec![Ev::Dgram(d, Some(a))],
        }))
    }))
}

/// Like `any_server`, but behaves like the relay behind the decoder: as soon as a request has been taken (first item),
/// and after every further item, an answer is encoded through the same codec (a 7-byte stream answer, or a datagram
/// from 127.0.0.1:53 for datagram-in-stream requests). What the encoder returns is not judged; it is part of the
/// receiving component and must not panic on a request the decoder has accepted.
pub fn any_server_answering(mut s: Box<dyn RealServer>) -> AnyDec {
    AnyDec(Box::new(move |b| {
        let it = s.decode(b)?;
        if let Some(it) = &it {
            let mut dst = BytesMut::new();
            let _ = match it {
                SrvItem::Udp(..) => s.encode_udp(b"answer!", "127.0.0.1:53".parse().unwrap(), &mut dst),
                _ => s.encode_tcp(b"answer!", &mut dst),
            };
        }
        Ok(it.map(|it| match it {
            SrvItem::Connect(d, a) => vec![Ev::Addr(a), Ev::Bytes(d)],
            SrvItem::Tcp(d) => vec![Ev::Bytes(d)],
            SrvItem::Udp(d, a) => vec![Ev::Dgram(d, Some(a))],
        }))
    }))
}

/// Set by the crash monitor (C07): the client adapters below then behave like the client's relay, whose upload pump goes on
/// encoding application writes whatever the download pump has just been fed - after every decode call that yielded an item
/// or an error, the next application write is encoded through the same codec. What the encoder returns is not judged.
pub static ANSWER_AFTER_DECODE: std::sync::atomic::AtomicBool = std::sync::atomic::AtomicBool::new(false);

fn answering() -> bool {
    ANSWER_AFTER_DECODE.load(std::sync::atomic::Ordering::Relaxed)
}

pub fn any_client(mut c: Box<dyn RealClient>) -> AnyDec {
    AnyDec(Box::new(move |b| {
        let r = c.decode(b);
        if answering() && !matches!(r, Ok(None)) {
            let mut dst = BytesMut::new();
            let _ = c.encode(b"next write", &mut dst);
        }
        Ok(r?.map(|d| vec![Ev::Bytes(d)]))
    }))
}

pub fn any_client_dgram(mut c: Box<dyn RealClientDgram>) -> AnyDec {
    AnyDec(Box::new(move |b| {
        let r = c.decode(b);
        if answering() && !matches!(r, Ok(None)) {
            let mut dst = BytesMut::new();
            let _ = c.encode(b"next datagram", &Address::Domain("next.example".into(), 53), &mut dst);
        }
        Ok(r?.map(|(d, a)| vec![Ev::Dgram(d, a)]))
    }))
}
