//! Monitors, workload generators and adapters shared by the harness binaries.
pub mod gen;
pub mod panicmon;
pub mod peer;
pub mod prng;
pub mod real;
pub mod report;
