//! Monitors, workload generators and adapters shared by the harness binaries.
//!
//! Feature `l1` (on by default) holds everything that is written against INTERFACES of /repo's crates - the adapters
//! around the real codec types (`real`), the drivers built on them and the codec-level checks. Without it the crate
//! still provides the node-level monitors (`e2e`), which only run the crates' own `main()` in `osv-node` and observe
//! sockets, processes and logs: when a change to /repo alters one of those interfaces, the driver falls back to that
//! build, so that the node-level steps of a check can still reach a verdict.
pub mod cfg;
#[cfg(feature = "l1")]
pub mod drive;
pub mod e2e;
pub mod gen;
pub mod hostile;
pub mod memio;
pub mod panicmon;
pub mod peer;
pub mod prng;
#[cfg(feature = "l1")]
pub mod real;
#[cfg(not(feature = "l1"))]
pub mod real {
    //! (node-level build: only the deployment description)
    pub use crate::cfg::*;
}
pub mod checks;
pub mod report;
#[cfg(feature = "l1")]
pub mod scn;
pub mod units;
