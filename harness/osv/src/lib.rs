//! Monitors, workload generators and adapters shared by the harness binaries.
pub mod checks;
pub mod drive;
pub mod e2e;
pub mod gen;
pub mod memio;
pub mod panicmon;
pub mod peer;
pub mod prng;
pub mod real;
pub mod report;
pub mod scn;
