//! Workload generators: addresses, write scripts, segmentations.

use refimpl::addr::Addr;

use crate::prng::Rng;

pub fn ldh_name(rng: &mut Rng, len: usize) -> Vec<u8> {
    const A: &[u8] = b"abcdefghijklmnopqrstuvwxyz0123456789-.";
    (0..len).map(|_| *rng.pick(A)).collect()
}

pub fn random_addr(rng: &mut Rng) -> Addr {
    match rng.below(10) {
        0..=2 => Addr::V4(rng.arr(), rng.next_u32() as u16),
        3..=4 => Addr::V6(rng.arr(), rng.next_u32() as u16),
        _ => {
            let len = *rng.pick(&[1usize, 2, 9, 11, 30, 63, 64, 100, 254, 255]);
            Addr::Domain(ldh_name(rng, len), *rng.pick(&[0u16, 1, 53, 80, 443, 8080, 65535]))
        }
    }
}

pub const SIZES: [usize; 22] = [0, 1, 2, 15, 16, 17, 100, 1000, 2030, 2031, 2032, 2046, 2047, 2048, 2049, 2050, 4096, 8191, 8192, 0x3FFE, 0x3FFF, 0x4000];

/// A script of application writes; sizes biased to boundaries. `cap` bounds a single write.
pub fn write_script(rng: &mut Rng, max_writes: usize, cap: usize) -> Vec<usize> {
    let n = rng.range(1, max_writes.max(1));
    (0..n)
        .map(|_| {
            let s = if rng.chance(2, 3) { *rng.pick(&SIZES) } else { rng.range(0, 3000) };
            s.min(cap)
        })
        .collect()
}

/// Cut `len` bytes into consecutive non-empty pieces at the given sorted cut positions (0 < c < len).
pub fn pieces(len: usize, cuts: &[usize]) -> Vec<(usize, usize)> {
    let mut v = Vec::with_capacity(cuts.len() + 1);
    let mut s = 0;
    for &c in cuts {
        if c > s && c < len {
            v.push((s, c));
            s = c;
        }
    }
    if s < len {
        v.push((s, len));
    }
    v
}

pub fn random_cuts(rng: &mut Rng, len: usize, max_cuts: usize) -> Vec<usize> {
    if len < 2 {
        return vec![];
    }
    let n = rng.range(1, max_cuts.max(1));
    let mut c: Vec<usize> = (0..n).map(|_| rng.range(1, len - 1)).collect();
    c.sort_unstable();
    c.dedup();
    c
}
