//! Deployments the harness generates (protocol, cipher, credentials, user tables): pure data and the JSON the nodes are
//! configured with. No code of /repo is referenced here, so everything built on this module (the reference peers, the
//! node-level monitors) still compiles when a change to /repo alters an interface the codec-level adapters use.

use refimpl::crypto::b64_encode;
use refimpl::ss::Method;
use serde_json::{json, Value};

use crate::prng::Rng;

#[derive(Clone, Copy, Debug, PartialEq, Eq, Hash)]
pub enum Proto {
    Ss(Method),
    /// security byte (3 = aes-128-gcm, 4 = chacha20-poly1305)
    Vmess(u8),
    Trojan,
}

impl Proto {
    pub fn name(&self) -> String {
        match self {
            Proto::Ss(m) => format!("shadowsocks/{}", m.name()),
            Proto::Vmess(3) => "vmess/aes-128-gcm".into(),
            Proto::Vmess(_) => "vmess/chacha20-poly1305".into(),
            Proto::Trojan => "trojan".into(),
        }
    }
    pub fn encrypted(&self) -> bool {
        !matches!(self, Proto::Trojan)
    }
}

pub fn all_protos() -> Vec<Proto> {
    let mut v: Vec<Proto> = refimpl::ss::ALL_METHODS.iter().map(|m| Proto::Ss(*m)).collect();
    v.push(Proto::Vmess(3));
    v.push(Proto::Vmess(4));
    v.push(Proto::Trojan);
    v
}

/// Credentials of one deployment (server + the client that talks to it).
#[derive(Clone, Debug)]
pub struct Cfg {
    pub proto: Proto,
    /// SS legacy: the textual password. SS 2022: unused.
    pub password: String,
    /// SS 2022: the server's own key (PSK; acts as iPSK when `users` is non-empty)
    pub server_psk: Vec<u8>,
    /// SS 2022 user table (name, uPSK)
    pub users: Vec<(String, Vec<u8>)>,
    /// which user the client is (index into `users`); None = single-user mode
    pub client_user: Option<usize>,
    /// VMess: UUID strings registered at the server, and the index the client uses
    pub uuids: Vec<String>,
    pub client_uuid: usize,
    /// SS 2022 (SIP023): identity keys of relays the client's request passes BEFORE it reaches this server
    /// (the client's password is chain[0]:chain[1]:...:server key:user key); empty in every ordinary deployment
    pub chain: Vec<Vec<u8>>,
}

pub fn uuid_string(b: &[u8; 16]) -> String {
    let h = crate::report::hex(b);
    format!("{}-{}-{}-{}-{}", &h[0..8], &h[8..12], &h[12..16], &h[16..20], &h[20..32])
}

impl Cfg {
    pub fn random(rng: &mut Rng, proto: Proto, n_users: usize) -> Cfg {
        let mut c = Cfg { proto, password: String::new(), server_psk: vec![], users: vec![], client_user: None, uuids: vec![], client_uuid: 0, chain: vec![] };
        match proto {
            Proto::Ss(m) => {
                if m.is_2022() {
                    c.server_psk = rng.bytes(m.key_len());
                    if m.supports_eih() && n_users > 0 {
                        for i in 0..n_users {
                            c.users.push((format!("user{i}"), rng.bytes(m.key_len())));
                        }
                        c.client_user = Some(rng.below(n_users as u64) as usize);
                    }
                } else {
                    c.password = random_password(rng);
                }
            }
            Proto::Vmess(_) => {
                for _ in 0..n_users.max(1) {
                    c.uuids.push(uuid_string(&rng.arr::<16>()));
                }
                c.client_uuid = rng.below(c.uuids.len() as u64) as usize;
            }
            Proto::Trojan => c.password = random_password(rng),
        }
        c
    }

    pub fn method(&self) -> Option<Method> {
        if let Proto::Ss(m) = self.proto {
            Some(m)
        } else {
            None
        }
    }

    /// Keys as the reference implementation wants them for the *client*.
    pub fn ref_client_keys(&self) -> refimpl::ss::Keys {
        let m = self.method().expect("ss");
        if m.is_2022() {
            match self.client_user {
                Some(i) => refimpl::ss::Keys { psk: self.users[i].1.clone(), ipsks: self.chain.iter().cloned().chain([self.server_psk.clone()]).collect() },
                None => refimpl::ss::Keys { psk: self.server_psk.clone(), ipsks: vec![] },
            }
        } else {
            refimpl::ss::keys_from_password(m, &self.password).unwrap()
        }
    }
    pub fn ref_server_psk(&self) -> Vec<u8> {
        let m = self.method().expect("ss");
        if m.is_2022() {
            self.server_psk.clone()
        } else {
            refimpl::crypto::evp_bytes_to_key(self.password.as_bytes(), m.key_len())
        }
    }
    pub fn ref_users(&self) -> Vec<refimpl::ss::S22User> {
        self.users.iter().map(|(n, k)| refimpl::ss::S22User { name: n.clone(), upsk: k.clone() }).collect()
    }
    pub fn ref_cmd_keys(&self) -> Vec<[u8; 16]> {
        self.uuids.iter().map(|u| refimpl::crypto::vmess_cmd_key(&refimpl::crypto::parse_uuid(u).unwrap())).collect()
    }

    /// "password" field of the client's config entry.
    pub fn client_password(&self) -> String {
        match self.proto {
            Proto::Ss(m) if m.is_2022() => match self.client_user {
                Some(i) => self.chain.iter().map(|k| b64_encode(k)).chain([b64_encode(&self.server_psk), b64_encode(&self.users[i].1)]).collect::<Vec<_>>().join(":"),
                None => b64_encode(&self.server_psk),
            },
            Proto::Vmess(_) => self.uuids[self.client_uuid].clone(),
            _ => self.password.clone(),
        }
    }
    /// "password" field of the server's config entry.
    pub fn server_password(&self) -> String {
        match self.proto {
            Proto::Ss(m) if m.is_2022() => b64_encode(&self.server_psk),
            Proto::Vmess(_) => self.uuids[0].clone(),
            _ => self.password.clone(),
        }
    }
    pub fn cipher_name(&self) -> &'static str {
        match self.proto {
            Proto::Ss(m) => m.name(),
            Proto::Vmess(4) => "chacha20-poly1305",
            Proto::Vmess(_) => "aes-128-gcm",
            Proto::Trojan => "aes-128-gcm",
        }
    }
    pub fn protocol_name(&self) -> &'static str {
        match self.proto {
            Proto::Ss(_) => "shadowsocks",
            Proto::Vmess(_) => "vmess",
            Proto::Trojan => "trojan",
        }
    }
    pub fn server_users_json(&self) -> Value {
        match self.proto {
            Proto::Ss(_) => Value::Array(self.users.iter().map(|(n, k)| json!({"name": n, "password": b64_encode(k)})).collect()),
            Proto::Vmess(_) => Value::Array(self.uuids.iter().enumerate().map(|(i, u)| json!({"name": format!("u{i}"), "password": u})).collect()),
            Proto::Trojan => json!([]),
        }
    }
    /// One entry of the client's `servers` array / the server's config array (transport sections added by callers).
    pub fn client_entry(&self, host: &str, port: u16) -> Value {
        json!({"host": host, "port": port, "password": self.client_password(), "protocol": self.protocol_name(), "cipher": self.cipher_name()})
    }
    pub fn server_entry(&self, host: &str, port: u16, mode: &str) -> Value {
        json!({"host": host, "port": port, "mode": mode, "password": self.server_password(), "protocol": self.protocol_name(), "cipher": self.cipher_name(), "user": self.server_users_json()})
    }
    pub fn describe(&self) -> Value {
        json!({"proto": self.proto.name(), "users": self.users.len().max(self.uuids.len()), "client_user": self.client_user, "client_password": self.client_password(), "server_password": self.server_password(), "server_users": self.server_users_json()})
    }
}

pub fn random_password(rng: &mut Rng) -> String {
    let n = *rng.pick(&[1usize, 3, 8, 8, 16, 24, 64, 200]);
    let alphabet: Vec<char> = "abcdefghijklmnopqrstuvwxyzABCDEFGHIJKLMNOPQRSTUVWXYZ0123456789-_!@#%^&*é世".chars().collect();
    let mut p: String = (0..n).map(|_| *rng.pick(&alphabet)).collect();
    // a password is the exact string between the quotes of the configuration file: white space at its ends or inside, quotes and
    // backslashes belong to it (a reader that trims or unescapes once too often derives another key than every other implementation)
    match rng.below(8) {
        0 => p = format!(" {p}"),
        1 => p = format!("{p} "),
        2 => p = format!("\t{p}\n"),
        3 => p = format!("{p}\u{3000}"),
        4 => p = format!("a b\\\"c{p}"),
        _ => {}
    }
    p
}

