//! Generators of hostile input made with the reference implementation: address encodings of every shape, and
//! well-authenticated-but-malformed requests and datagrams (right credential, correctly sealed, content that no
//! conforming peer would send). Shared by the codec-level crash monitor (C07) and by the node-level steps that
//! present the same input to running servers and clients.

use refimpl::addr::Addr;
use refimpl::ss;
use refimpl::vmess;

use crate::cfg::{Cfg, Proto};
use crate::prng::Rng;

pub fn boundary_u16s() -> Vec<u16> {
    vec![0, 1, 2, 15, 16, 17, 255, 256, 900, 901, 0x3FFF, 0x4000, 0x7FFF, 0x8000, 0xFFFE, 0xFFFF]
}

/// Address-field variants: every ATYP, truncated and overlong domain lengths.
pub fn address_variants(rng: &mut Rng) -> Vec<Vec<u8>> {
    let mut v: Vec<Vec<u8>> = vec![vec![]];
    for atyp in 0..=255u8 {
        let mut a = vec![atyp];
        a.extend_from_slice(&rng.bytes(6));
        v.push(a);
        v.push(vec![atyp]);
    }
    for dl in [0u8, 1, 2, 200, 255] {
        for have in [0usize, 1, dl as usize / 2, dl as usize, dl as usize + 1, dl as usize + 2] {
            let mut a = vec![3, dl];
            a.extend_from_slice(&rng.bytes(have));
            v.push(a);
        }
    }
    // a domain that is not UTF-8
    v.push(vec![3, 4, 0xff, 0xfe, 0xc0, 0x80, 0, 80]);
    v.push(vec![1, 1, 2, 3]);
    v.push(vec![4, 1, 2, 3, 4, 5, 6, 7, 8, 9, 10, 11, 12, 13, 14, 15, 16, 0]);
    v
}

/// Plaintext bodies that follow an address field in the various headers: padding-length games.
pub fn with_tail_variants(addr: &[u8], rng: &mut Rng) -> Vec<Vec<u8>> {
    let mut v = vec![addr.to_vec()];
    for pl in boundary_u16s() {
        for have in [0usize, 1, pl as usize / 2, pl as usize] {
            if have > 2000 {
                continue;
            }
            let mut b = addr.to_vec();
            b.extend_from_slice(&pl.to_be_bytes());
            b.extend_from_slice(&rng.bytes(have));
            v.push(b);
        }
    }
    let mut b = addr.to_vec();
    b.push(0);
    v.push(b);
    v
}

/// Well-authenticated but malformed requests for a server of `cfg` (made with the reference implementation and the
/// right credential, so they pass authentication and reach the parsing code behind it). Used at codec level (fed to
/// a fresh server decoder) and at node level (written to the listening socket of a running server).
pub fn server_malformed_wires(cfg: &Cfg, dgram: bool, target: &Addr, now: u64, rng: &mut Rng, sink: &mut dyn FnMut(&str, Vec<u8>)) {
    let addrs = address_variants(rng);
    match (cfg.proto, dgram) {
        (Proto::Ss(m), _) if m.is_2022() => {
            let keys = cfg.ref_client_keys();
            for a in &addrs {
                for var in with_tail_variants(a, rng).into_iter().take(12) {
                    let salt = rng.bytes(m.key_len());
                    for declared in [var.len() as u16, 0u16] {
                        let (mut w, mut cc) = ss::s22_request_encode_raw(m, &keys, &salt, 0, now, &var, declared);
                        ss::write_chunks(&mut cc, b"tail", 100, &mut w);
                        sink("ss2022-variable-header", w);
                        if declared == 0 {
                            break;
                        }
                    }
                }
            }
        }
        (Proto::Ss(m), _) => {
            let master = cfg.ref_server_psk();
            for a in &addrs {
                let mut first = a.clone();
                first.extend_from_slice(&rng.bytes(3));
                let mut w = ss::Sip004Writer::new(m, &master, rng.bytes(m.key_len()));
                let mut wire = Vec::new();
                w.write(&first, 0x3FFF, &mut wire);
                if rng.chance(1, 2) {
                    w.write(b"more", 0x3FFF, &mut wire);
                }
                sink("sip004-first-chunk", wire);
            }
            // declared chunk lengths at the boundaries, authenticated
            for l in boundary_u16s() {
                let salt = rng.bytes(m.key_len());
                let sub = refimpl::crypto::ss_subkey(&master, &salt);
                let mut cc = ss::ChunkCipher::new(m.stream_aead(), sub);
                let mut wire = salt.clone();
                wire.extend_from_slice(&cc.seal(&l.to_be_bytes(), "ss-len"));
                wire.extend_from_slice(&rng.bytes(40));
                sink("sip004-length-field", wire);
            }
        }
        (Proto::Vmess(sec), _) => {
            let ck = cfg.ref_cmd_keys()[cfg.client_uuid];
            let cmd = if dgram { vmess::CMD_UDP } else { vmess::CMD_TCP };
            let base = vmess::RequestHeader { version: 1, body_iv: rng.arr(), body_key: rng.arr(), resp_v: 7, option: 0x05, padding: rng.bytes(5), security: sec, reserved: 0, command: cmd, addr: target.clone() };
            let full = vmess::header_plaintext(&base);
            let mut plains: Vec<Vec<u8>> = Vec::new();
            for n in 0..=full.len() {
                plains.push(full[..n].to_vec()); // truncated at every length (checksum then wrong: must be an error, not a panic)
                let mut t = full[..n].to_vec();
                let f = refimpl::crypto::fnv1a32(&t);
                t.extend_from_slice(&f.to_be_bytes());
                plains.push(t); // truncated but with a *valid* checksum
            }
            for atyp in 0..=255u8 {
                let mut t = full[..full.len() - 4].to_vec();
                t[40] = atyp;
                let f = refimpl::crypto::fnv1a32(&t);
                t.extend_from_slice(&f.to_be_bytes());
                plains.push(t);
            }
            for c in 0..=255u8 {
                let mut t = full[..full.len() - 4].to_vec();
                t[37] = c;
                let f = refimpl::crypto::fnv1a32(&t);
                t.extend_from_slice(&f.to_be_bytes());
                plains.push(t);
                let mut t = full[..full.len() - 4].to_vec();
                t[35] = c; // padding nibble / security
                let f = refimpl::crypto::fnv1a32(&t);
                t.extend_from_slice(&f.to_be_bytes());
                plains.push(t);
                let mut t = full[..full.len() - 4].to_vec();
                t[34] = c; // option mask
                let f = refimpl::crypto::fnv1a32(&t);
                t.extend_from_slice(&f.to_be_bytes());
                plains.push(t);
            }
            for pt in plains {
                let aid = vmess::make_auth_id(&ck, now as i64, rng.next_u32());
                let mut w = vmess::seal_header_bytes(&ck, &pt, &aid, &rng.arr());
                // follow with masked (unauthenticated) chunk lengths of every small size
                w.extend_from_slice(&rng.bytes(48));
                sink("vmess-request-header", w);
            }
            // valid header, then body chunks whose (masked, unauthenticated) length is every value 0..=80 and the boundaries
            for opt in [0x01u8, 0x05, 0x0D] {
                for l in (0..=80u16).chain(boundary_u16s()) {
                    let mut h = base.clone();
                    h.option = opt;
                    let aid = vmess::make_auth_id(&ck, now as i64, rng.next_u32());
                    let mut w = vmess::seal_request_header(&ck, &h, &aid, &rng.arr());
                    let mut shake = refimpl::crypto::Shake::new(&h.body_iv);
                    if opt & 0x08 != 0 {
                        let _pad = shake.next_u16();
                    }
                    let field = if opt & 0x04 != 0 { l ^ shake.next_u16() } else { l };
                    w.extend_from_slice(&field.to_be_bytes());
                    w.extend_from_slice(&rng.bytes((l as usize).min(300) + 5));
                    sink("vmess-body-length", w);
                }
            }
        }
        (Proto::Trojan, _) => {
            let hash = refimpl::crypto::sha224_hex(cfg.password.as_bytes()).into_bytes();
            for cmd in 0..=255u8 {
                let mut w = hash.clone();
                w.extend_from_slice(b"\r\n");
                w.push(cmd);
                refimpl::addr::socks_encode(target, &mut w);
                w.extend_from_slice(b"\r\nrest");
                sink("trojan-command", w);
            }
            for a in &addrs {
                for cmd in [1u8, 3] {
                    for tail in [&b"\r\n"[..], &b""[..], &b"\r"[..], &b"xx\r\n"[..]] {
                        let mut w = hash.clone();
                        w.extend_from_slice(b"\r\n");
                        w.push(cmd);
                        w.extend_from_slice(a);
                        w.extend_from_slice(tail);
                        w.extend_from_slice(&rng.bytes(3));
                        sink("trojan-address", w);
                    }
                }
            }
            // UDP associate, then malformed packets
            for a in &addrs {
                for body in with_tail_variants(a, rng).into_iter().take(10) {
                    let mut w = refimpl::trojan::request_encode(cfg.password.as_bytes(), 3, target, &[]);
                    w.extend_from_slice(&body);
                    sink("trojan-udp-packet", w);
                }
            }
            // non-ASCII / odd "hex"
            for k in 0..40 {
                let mut w: Vec<u8> = match k % 4 {
                    0 => "é".repeat(28).into_bytes(),
                    1 => rng.bytes(56),
                    2 => {
                        let mut h = hash.clone();
                        h[k % 56] = 0xC3;
                        h
                    }
                    _ => vec![b'+'; 56],
                };
                w.extend_from_slice(b"\r\n\x01\x01\x01\x02\x03\x04\x00\x50\r\n");
                sink("trojan-hash-field", w);
            }
        }
    }
}

/// Hostile datagrams for the Shadowsocks UDP decoders of both roles: random ones and well-authenticated-but-malformed
/// ones (made with the reference implementation under the right keys). (class, to_server, bytes); `csid` is the
/// client session id replies must name to get past the session check.
pub fn ss_udp_hostile_datagrams(cfg: &Cfg, m: ss::Method, now: u64, csid: u64, rng: &mut Rng, phase: usize) -> Vec<(&'static str, bool, Vec<u8>)> {
    let keys = cfg.ref_client_keys();
    let mut datagrams: Vec<(&'static str, bool, Vec<u8>)> = Vec::new(); // (class, to_server, bytes)
    for len in (0..=120).chain([200, 1500, 65507]) {
        datagrams.push(("random", true, rng.bytes(len)));
        datagrams.push(("random", false, rng.bytes(len)));
    }
    let addrs = address_variants(rng);
    for a in addrs.iter().skip(phase).step_by(3) {
        for tail in with_tail_variants(a, rng).into_iter().take(4) {
            if m.is_2022() {
                // request bodies: type, timestamp, padding length, padding, address, payload - cut and bent everywhere
                for body in [
                    tail.clone(),
                    [&[0u8][..], &tail[..]].concat(),
                    [&[0u8][..], &now.to_be_bytes()[..], &tail[..]].concat(),
                    [&[0u8][..], &now.to_be_bytes()[..], &[0u8, 0][..], &tail[..]].concat(),
                    [&[0u8][..], &now.to_be_bytes()[..], &[0xffu8, 0xff][..], &tail[..]].concat(),
                ] {
                    datagrams.push(("authenticated-malformed", true, ss::s22_udp_encode_raw(m, &keys, rng.next_u64(), 1, &body, &rng.arr(), false)));
                }
                for body in [
                    tail.clone(),
                    [&[1u8][..], &tail[..]].concat(),
                    [&[1u8][..], &now.to_be_bytes()[..], &tail[..]].concat(),
                    [&[1u8][..], &now.to_be_bytes()[..], &csid.to_be_bytes()[..], &tail[..]].concat(),
                    [&[1u8][..], &now.to_be_bytes()[..], &csid.to_be_bytes()[..], &[0u8, 0][..], &tail[..]].concat(),
                    [&[1u8][..], &now.to_be_bytes()[..], &csid.to_be_bytes()[..], &[0xffu8, 0xff][..], &tail[..]].concat(),
                ] {
                    let k = refimpl::ss::Keys { psk: keys.psk.clone(), ipsks: vec![] };
                    datagrams.push(("authenticated-malformed", false, ss::s22_udp_encode_raw(m, &k, rng.next_u64(), 5, &body, &rng.arr(), true)));
                }
            } else {
                datagrams.push(("authenticated-malformed", true, ss::sip004_udp_encode_raw(m, &keys.psk, &rng.bytes(m.key_len()), &tail)));
                datagrams.push(("authenticated-malformed", false, ss::sip004_udp_encode_raw(m, &cfg.ref_server_psk(), &rng.bytes(m.key_len()), &tail)));
            }
        }
    }
    datagrams
}
