//! Scenarios: a fresh real decoder in a chosen role/state together with a valid wire stream for it
//! (made by the reference implementation or by the real encoders) and the plaintext it must yield.

use bytes::BytesMut;
use refimpl::addr::Addr;

use crate::drive::{drain_server, guarded};
use crate::peer::{ClientOpts, RefClient, RefServer, ServerOpts};
use crate::prng::Rng;
use crate::real::{self, any_client, any_client_dgram, any_server, to_address, AnyDec, Cfg, Ev, Proto};

#[derive(Clone, Copy, Debug, PartialEq, Eq, Hash)]
pub enum Role {
    /// server inbound decoder reading a client's request stream
    ServerStream,
    /// client decoder reading a server's response stream
    ClientStream,
    /// server inbound decoder reading datagram-in-stream requests (VMess cmd UDP / Trojan UDP)
    ServerDgram,
    /// client decoder reading datagram-in-stream replies
    ClientDgram,
}

#[derive(Clone, Copy, Debug, PartialEq, Eq, Hash)]
pub enum Source {
    Ref,
    Real,
}

#[derive(Clone, Debug)]
pub struct Spec {
    pub cfg: Cfg,
    pub role: Role,
    pub source: Source,
    pub target: Addr,
    /// plaintext frames in the direction under test
    pub writes: Vec<Vec<u8>>,
    /// for client roles: what the client sends first
    pub request_first: Vec<u8>,
    pub vmess_option: u8,
    pub max_chunk: usize,
    pub now: u64,
}

pub struct Inst {
    pub dec: AnyDec,
    pub wire: Vec<u8>,
    /// wire offset after each write
    pub frame_ends: Vec<usize>,
    /// plaintext offset after each write (stream roles)
    pub plain_ends: Vec<usize>,
    /// cuts below this offset fall under the SIP022 first-read exemption
    pub exempt: usize,
    pub expected_addr: Option<Addr>,
    pub expected_stream: Vec<u8>,
    pub expected_dgrams: Vec<Vec<u8>>,
    /// the request the client sent (client roles) - for reflection tests
    pub request_wire: Vec<u8>,
}

impl Spec {
    pub fn is_dgram(&self) -> bool {
        matches!(self.role, Role::ServerDgram | Role::ClientDgram)
    }

    pub fn describe(&self) -> serde_json::Value {
        serde_json::json!({"proto": self.cfg.proto.name(), "users": self.cfg.users.len().max(self.cfg.uuids.len()), "role": format!("{:?}", self.role), "wire_from": format!("{:?}", self.source), "target": self.target.describe(), "write_sizes": self.writes.iter().map(|w| w.len()).collect::<Vec<_>>(), "vmess_option": self.vmess_option, "max_chunk": self.max_chunk, "cfg": self.cfg.describe()})
    }

    fn exempt(&self) -> usize {
        match self.cfg.proto {
            Proto::Ss(m) if m.is_2022() => {
                let n = m.key_len();
                match self.role {
                    Role::ServerStream => n + if self.cfg.users.is_empty() { 0 } else { 16 } + 11 + 16,
                    Role::ClientStream => n + 1 + 8 + n + 2 + 16,
                    _ => 0,
                }
            }
            _ => 0,
        }
    }

    /// Build a fresh decoder in the right state and a fresh valid wire stream for it.
    pub fn instantiate(&self, rng: &mut Rng) -> Result<Inst, String> {
        crate::checks::pin_clock(self.now);
        let cfg = &self.cfg;
        let mut wire = Vec::new();
        let mut frame_ends = Vec::new();
        let mut plain_ends = Vec::new();
        let mut plain = 0usize;
        let mut request_wire = Vec::new();
        let taddr = to_address(&self.target);
        let dec: AnyDec = match self.role {
            Role::ServerStream | Role::ServerDgram => {
                let dgram = self.role == Role::ServerDgram;
                match self.source {
                    Source::Ref => {
                        let mut c = RefClient::new(cfg, &self.target, rng, self.now, ClientOpts { vmess_option: self.vmess_option, max_chunk: self.max_chunk, dgram, ..Default::default() });
                        for w in &self.writes {
                            wire.extend_from_slice(&c.write(w, rng));
                            frame_ends.push(wire.len());
                            plain += w.len();
                            plain_ends.push(plain);
                        }
                    }
                    Source::Real => {
                        if dgram {
                            let mut c = real::client_dgram_codec(cfg, &taddr).map_err(|e| e.to_string())?;
                            for w in &self.writes {
                                let mut dst = BytesMut::new();
                                guarded(|| c.encode(w, &taddr, &mut dst)).map_err(|f| f.describe())?;
                                wire.extend_from_slice(&dst);
                                frame_ends.push(wire.len());
                            }
                        } else {
                            let sh = real::client_shared(cfg).map_err(|e| e.to_string())?;
                            let mut c = real::client_codec(cfg, &sh, &taddr).map_err(|e| e.to_string())?;
                            for w in &self.writes {
                                let mut dst = BytesMut::new();
                                guarded(|| c.encode(w, &mut dst)).map_err(|f| f.describe())?;
                                wire.extend_from_slice(&dst);
                                frame_ends.push(wire.len());
                                plain += w.len();
                                plain_ends.push(plain);
                            }
                        }
                    }
                }
                let sh = real::server_shared(cfg).map_err(|e| e.to_string())?;
                any_server(real::server_codec(cfg, &sh).map_err(|e| e.to_string())?)
            }
            Role::ClientStream => {
                let sh = real::client_shared(cfg).map_err(|e| e.to_string())?;
                let mut c = real::client_codec(cfg, &sh, &taddr).map_err(|e| e.to_string())?;
                let mut req = BytesMut::new();
                guarded(|| c.encode(&self.request_first, &mut req)).map_err(|f| f.describe())?;
                request_wire = req.to_vec();
                self.response_wire(rng, &req, false, &mut wire, &mut frame_ends, &mut plain_ends)?;
                any_client(c)
            }
            Role::ClientDgram => {
                let mut c = real::client_dgram_codec(cfg, &taddr).map_err(|e| e.to_string())?;
                let mut req = BytesMut::new();
                guarded(|| c.encode(&self.request_first, &taddr, &mut req)).map_err(|f| f.describe())?;
                request_wire = req.to_vec();
                self.response_wire(rng, &req, true, &mut wire, &mut frame_ends, &mut plain_ends)?;
                any_client_dgram(c)
            }
        };
        let dgram = self.is_dgram();
        Ok(Inst {
            dec,
            wire,
            frame_ends,
            plain_ends,
            exempt: self.exempt(),
            expected_addr: if matches!(self.role, Role::ServerStream | Role::ServerDgram) { Some(self.target.clone()) } else { None },
            expected_stream: if dgram { vec![] } else { self.writes.concat() },
            expected_dgrams: if dgram { self.writes.clone() } else { vec![] },
            request_wire,
        })
    }

    fn response_wire(&self, rng: &mut Rng, req: &[u8], dgram: bool, wire: &mut Vec<u8>, frame_ends: &mut Vec<usize>, plain_ends: &mut Vec<usize>) -> Result<(), String> {
        let cfg = &self.cfg;
        let mut plain = 0;
        match self.source {
            Source::Ref => {
                let mut s = RefServer::new(cfg, self.now, ServerOpts { max_chunk: self.max_chunk, ..Default::default() });
                s.read_units(req).map_err(|e| format!("reference server rejects the real client's request: {e}"))?;
                if s.addr.is_none() {
                    return Err("reference server could not complete the request header".into());
                }
                for w in &self.writes {
                    wire.extend_from_slice(&s.write(w, rng));
                    frame_ends.push(wire.len());
                    plain += w.len();
                    plain_ends.push(plain);
                }
            }
            Source::Real => {
                let sh = real::server_shared(cfg).map_err(|e| e.to_string())?;
                let mut s = real::server_codec(cfg, &sh).map_err(|e| e.to_string())?;
                let mut b = BytesMut::from(req);
                let d = drain_server(s.as_mut(), &mut b, true);
                if let Some(f) = d.stop {
                    return Err(format!("real server rejects the real client's request: {}", f.describe()));
                }
                if d.items.is_empty() {
                    return Err("real server yields nothing for the real client's request".into());
                }
                for (k, w) in self.writes.iter().enumerate() {
                    let mut dst = BytesMut::new();
                    if dgram {
                        let from = std::net::SocketAddr::from(([10, 1, 2, 3], 1000 + k as u16));
                        guarded(|| s.encode_udp(w, from, &mut dst)).map_err(|f| f.describe())?;
                    } else {
                        guarded(|| s.encode_tcp(w, &mut dst)).map_err(|f| f.describe())?;
                    }
                    wire.extend_from_slice(&dst);
                    frame_ends.push(wire.len());
                    plain += w.len();
                    plain_ends.push(plain);
                }
            }
        }
        Ok(())
    }
}

/// Accumulates flattened decoder events and compares them with what a scenario expects.
#[derive(Default, Debug, Clone)]
pub struct Got {
    pub addrs: Vec<Addr>,
    pub stream: Vec<u8>,
    pub dgrams: Vec<Vec<u8>>,
    pub addr_after_bytes: bool,
}

impl Got {
    pub fn push(&mut self, evs: Vec<Ev>) {
        for e in evs {
            match e {
                Ev::Addr(a) => {
                    if !self.stream.is_empty() || !self.dgrams.is_empty() {
                        self.addr_after_bytes = true;
                    }
                    self.addrs.push(a)
                }
                Ev::Bytes(b) => self.stream.extend_from_slice(&b),
                Ev::Dgram(d, a) => {
                    if let Some(a) = a {
                        self.addrs.push(a);
                    }
                    self.dgrams.push(d)
                }
            }
        }
    }

    /// None = exactly what was expected; Some(symptom) otherwise.
    pub fn compare(&self, inst: &Inst, role: Role) -> Option<String> {
        match role {
            Role::ServerStream => {
                if inst.expected_stream.is_empty() && self.addrs.is_empty() && self.stream.is_empty() {
                    return None; // nothing written, nothing to deliver
                }
                if self.addrs.len() != 1 || self.addrs[0] != *inst.expected_addr.as_ref().unwrap() || self.addr_after_bytes {
                    return Some(format!("address:{}", if self.addrs.is_empty() { "missing".to_string() } else { "wrong-or-repeated".to_string() }));
                }
                self.cmp_stream(inst)
            }
            Role::ClientStream => self.cmp_stream(inst),
            Role::ServerDgram => {
                if self.dgrams != inst.expected_dgrams {
                    return Some(self.dgram_symptom(inst));
                }
                if self.addrs.iter().any(|a| Some(a) != inst.expected_addr.as_ref()) {
                    return Some("address:wrong".into());
                }
                None
            }
            Role::ClientDgram => {
                if self.dgrams != inst.expected_dgrams {
                    return Some(self.dgram_symptom(inst));
                }
                None
            }
        }
    }

    fn cmp_stream(&self, inst: &Inst) -> Option<String> {
        if self.stream == inst.expected_stream {
            None
        } else if inst.expected_stream.starts_with(&self.stream) {
            Some("stall:content-of-complete-frames-not-delivered".into())
        } else {
            Some("stream-content-differs".into())
        }
    }

    fn dgram_symptom(&self, inst: &Inst) -> String {
        if self.dgrams.len() < inst.expected_dgrams.len() && inst.expected_dgrams.starts_with(&self.dgrams) {
            "stall:complete-datagrams-not-delivered".into()
        } else {
            "datagram-sequence-differs".into()
        }
    }
}
