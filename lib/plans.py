"""Per-property plans: which harness runs decide the property, at which level, with which rule text."""

TB = [
    "the RustCrypto primitive crates (AES, GCM, ChaCha20-Poly1305, BLAKE3, MD5, SHA-1/2/3, HKDF) used by the reference implementation",
    "refimpl (harness/refimpl): written here from the published specifications, self-tested against embedded vectors at the start of every run",
]

PROPS = {
    "C03": {
        "level": "exploration",
        "rule": "seeded cases (config x target address x write scripts x reference options); per case the real encoders' output is decoded by the strict reference implementation and reference output by the real decoders, for streams (request and response), Shadowsocks UDP datagrams (both roles) and VMess/Trojan datagram-in-stream; a case is non-trivial when at least one stream or datagram was completely decoded and compared; distinct = distinct (seed, index) descriptors that were non-trivial",
        "assumptions": TB + ["item sizes handed to real encoders are capped at 8192 bytes, the largest item the relay's 8 KiB read buffer can produce", "clock pinned through the verif clock hook"],
        "plan": [
            {"name": "differential", "check": "c03"},
        ],
    },
    "C11": {
        "level": "exploration",
        "rule": "PacketWindowFilter answers compared step by step with an explicit set model (accepted-set, highest, window 8128, limit): ALL histories of length 3 over a 37-value boundary alphabet for 3 limits and ALL histories of length 5 over a 16-value sub-alphabet (exhaustive sub-spaces), plus seeded random walks of 10^4 ids (4 styles); plus scripted reply-id histories through the real client DatagramPacketCodec (decode + filter); non-trivial = every history (each compares >= 3 decisions); distinct = distinct histories",
        "exhaustive_note": "exhaustive for the enumerated short-history sub-spaces only (see rule); random walks and codec histories are samples",
        "assumptions": ["the set model in harness/osv/src/checks/c11.rs is the specification of the property statement", "reference-made reply datagrams (refimpl) for the client-codec part"],
        "plan": [
            {"name": "filter-model", "check": "c11"},
        ],
    },
}

PROPS["C04"] = {
    "level": "exploration",
    "rule": "seeded cases (protocol x cipher x user table x role {server stream, client stream, server datagram-in-stream, client datagram-in-stream} x wire source {reference, real encoder} x 1-6 frames); per case: the whole stream, ALL single cuts (streams <= 700 bytes; sampled above), ALL pairs of cuts (streams <= 110/160 bytes), byte-by-byte, every frame boundary +-1, one read per sender write, random multi-cuts, and the same cuts as WebSocket message boundaries through WebSocketFramed; each (case, transport, family, cuts) is one evaluation; non-trivial = the reader yielded at least one address/byte/datagram that was compared; distinct = distinct (case, transport, family, cuts)",
    "exhaustive_note": "single-cut and double-cut families are enumerated completely for the short streams of each case; everything else is sampled",
    "assumptions": TB + ["cuts inside salt+[EIH]+fixed-header of the first read are skipped for Shadowsocks 2022 (the exemption in the property)", "the in-memory transport never signals EOF; 'Pending under a paused clock' is the stall criterion"],
    "plan": [
        {"name": "segmentation", "check": "c04"},
    ],
}
