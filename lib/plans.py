"""Per-property plans: which harness runs decide the property, at which level, with which rule text."""

TB = [
    "the RustCrypto primitive crates (AES, GCM, ChaCha20-Poly1305, BLAKE3, MD5, SHA-1/2/3, HKDF) used by the reference implementation",
    "refimpl (harness/refimpl): written here from the published specifications, self-tested against embedded vectors at the start of every run",
]

PROPS = {
    "C03": {
        "level": "exploration",
        "rule": "seeded cases (config x target address x write scripts x reference options); per case the real encoders' output is decoded by the strict reference implementation and reference output by the real decoders, for streams (request and response; half of the reference client's messages are delivered to the real server in several pieces, as a peer that writes a message in several writes would, never inside the Shadowsocks 2022 first-read prefix), Shadowsocks UDP datagrams (both roles) and VMess/Trojan datagram-in-stream; a case is non-trivial when at least one stream or datagram was completely decoded and compared; distinct = distinct (seed, index) descriptors that were non-trivial",
        "assumptions": TB + ["item sizes handed to real encoders are capped at 8192 bytes, the largest item the relay's 8 KiB read buffer can produce", "clock pinned through the verif clock hook"],
        "plan": [
            {"name": "differential", "check": "c03"},
        ],
    },
    "C11": {
        "level": "exploration",
        "rule": "PacketWindowFilter answers compared step by step with an explicit set model (accepted-set, highest, window 8128, limit): ALL histories of length 3 over a 37-value boundary alphabet for 3 limits and ALL histories of length 5 over a 16-value sub-alphabet (exhaustive sub-spaces), plus seeded random walks of 10^4 ids (4 styles); plus scripted reply-id histories through the real client DatagramPacketCodec (decode + filter); node level: a reference client sends scripted id histories of one session (duplicates, reordering within the window, jumps across the window edge, ids near 2^64) to a real server, the echo target's log is compared with the same model and five fresh ids must still arrive afterwards; non-trivial = every history (each compares >= 3 decisions); distinct = distinct histories",
        "exhaustive_note": "exhaustive for the enumerated short-history sub-spaces only (see rule); random walks and codec histories are samples",
        "assumptions": ["the set model in harness/osv/src/checks/c11.rs is the specification of the property statement", "reference-made reply datagrams (refimpl) for the client-codec part"],
        "plan": [
            {"name": "filter-model", "check": "c11"},
            {"name": "history-nodes", "check": "c11", "bin": "osv-e2e", "timeout": {"quick": 900, "thorough": 2400}},
        ],
    },
}

PROPS["C04"] = {
    "level": "exploration",
    "rule": "seeded cases (protocol x cipher x user table x role {server stream, client stream, server datagram-in-stream, client datagram-in-stream} x wire source {reference, real encoder} x 1-6 frames); per case: the whole stream, ALL single cuts (streams <= 700 bytes; sampled above), ALL pairs of cuts (streams <= 110/160 bytes), byte-by-byte, every frame boundary +-1, one read per sender write, random multi-cuts, and the same cuts as WebSocket message boundaries through WebSocketFramed; each (case, transport, family, cuts) is one evaluation; non-trivial = the reader yielded at least one address/byte/datagram that was compared; distinct = distinct (case, transport, family, cuts)",
    "exhaustive_note": "single-cut and double-cut families are enumerated completely for the short streams of each case; everything else is sampled",
    "assumptions": TB + ["cuts inside salt+[EIH]+fixed-header of the first read are skipped for Shadowsocks 2022 (the exemption in the property)", "the in-memory transport never signals EOF; 'Pending under a paused clock' is the stall criterion"],
    "plan": [
        {"name": "segmentation", "check": "c04"},
    ],
}

PROPS["C05"] = {
    "level": "exploration",
    "rule": "seeded cases (encrypted protocol x cipher x user table x role x wire source x 2-6 single-chunk frames); per case every mutation of the families bit-flip (every byte position of streams <= 400 bytes, sampled above), truncation (every point, then EOF), frame deletion / duplication / adjacent swap / replay of an earlier frame, random insertion at frame boundaries, random multi-byte edits, reflection of the peer's own request (SS2022, VMess); streams of 66200 one-byte chunks (VMess both securities, Shadowsocks) with adjacent swaps, duplications, deletions and replays around the counter carries (127/128, 255/256, 32767/32768, 65535/65536/65537) and, for VMess, swaps of equal-length frames beyond the 16-bit counter; delivered whole or in random cuts through the real FramedRead and (1 in 7) WebSocketFramed, polled past errors like the server relay; plus every single-bit flip and truncation of Shadowsocks UDP datagrams in both roles, and reflected datagrams in both directions including ones crafted so that their fields are well-formed when read with the opposite direction's layout (only the direction marker stands between them and acceptance); non-trivial = a mutated stream/datagram was delivered and what was released was compared; distinct = distinct (case, mutation)",
    "exhaustive_note": "single-bit flips (one bit per byte position; two in thorough) and truncation points are enumerated completely for streams <= 400 bytes and for every UDP datagram",
    "assumptions": TB + ["each write is at most one chunk in every encoder, so frame boundaries are AEAD unit-group boundaries and give the exact cut-off", "VMess GlobalPadding bytes are unauthenticated by protocol design: with padding in play only the prefix property is demanded, not the cut-off", "SIP004 (legacy) reflection is out of scope (the property names SS2022 and VMess)"],
    "plan": [{"name": "tamper", "check": "c05"}],
}

PROPS["C06"] = {
    "level": "exploration",
    "rule": "per seeded deployment (every protocol/cipher x user table of 0/1/3 users): random byte strings of EVERY length 0..300 (+ long ones), valid reference handshakes under wrong credentials (random key, EVERY single-bit flip of the PSK / UUID, every 3rd bit of iPSK and uPSK, password variants, unregistered user with right iPSK, right user with wrong iPSK, iPSK used as user key, uPSK without identity header), valid handshakes of every other protocol, EVERY proper prefix of a valid handshake followed by silence and by random bytes, VMess valid auth-id with foreign header key; oracle: the real server decoder never yields an item; plus for every registered user: request accepted, attributed to that user, answered under that user's key and under no other key (TCP and UDP); node level: a real server used by a real client with the configured credential (control) and by real clients with near-miss credentials (another / one-character-longer / shorter password, another or one-bit-off key, UUID, user key; unregistered user key behind the right server key; server key without a user key): 4 TCP flows and 4 datagrams each, the canary targets must never be contacted; evaluations = inputs presented + flows and datagrams attempted; distinct = deployments",
    "exhaustive_note": "all lengths 0..300 of random input, all key-bit positions, all handshake prefixes are enumerated per deployment",
    "assumptions": TB + ["'no item yielded by the server-side decoder' is the codec-level form of 'never dials / never forwards'; the running-node form is part of C08/C01 canaries"],
    "plan": [
        {"name": "credential", "check": "c06"},
        {"name": "credential-nodes", "check": "c06", "bin": "osv-e2e", "timeout": {"quick": 900, "thorough": 2400}},
    ],
}

PROPS["C07"] = {
    "level": "exploration",
    "rule": "every network-facing decoder (server inbound and client reply decoders of every protocol/cipher in states initial / header-done / mid-chunk, datagram-in-stream decoders, Shadowsocks UDP decoders of both roles, the four SOCKS5 handshake decoders, Socks5UdpCodec, HTTP request-target extraction) x input classes: all single bytes and sampled pairs, random strings of every length 0..80 and longer ones, the valid continuation with one bit flipped or truncated at a point followed by EOF, and well-authenticated-but-malformed frames built with the reference implementation (every ATYP 0..255, domain lengths vs. actual, padding lengths at u16 boundaries, truncated and checksum-valid-but-short VMess headers, every VMess command/option/padding nibble, masked chunk lengths 0..80, every Trojan command, non-ASCII hashes, empty VMess response headers); delivered whole, byte-by-byte and in random cuts, then end-of-stream; SOCKS5 decoders: ALL inputs of length <= 2 and lengths 3-6 over a 9-value alphabet; monitors: panic hook with in-repo frame, UTF-8 validity of every yielded host name; node level (every protocol with a rotating transport, thorough: all 50 protocol x transport configurations): RUNNING nodes are fed hostile input so that the glue behind the decoders is reached too - (A) a peer writes to the server, through the transport it listens on (tcp / tls / ws / wss / quic), random bytes, valid requests bit-flipped / truncated / continued with garbage, the authenticated-malformed requests of the generators above (right credential, real clock), valid requests and datagram associations for unusual targets (names that are not UTF-8 or contain NUL, 255-byte names, port 0, unresolvable names, refused ports, unspecified and broadcast addresses), in random pieces, ended by FIN / reset / silence; WebSocket listeners additionally get 40 hand-written upgrade requests (no Host header, HTTP/1.0, odd paths, missing key, header values that are not text, ...) and frame scripts (fragmented, unmasked, reserved bits, giant declared length, control frames, byte-per-frame); Shadowsocks UDP ports get the datagram generators and valid datagrams for the same targets; (B) a hostile reference server (tcp or websocket, plus a UDP socket for Shadowsocks) answers a real client with nothing / reset / silence / random bytes / valid answers bit-flipped, truncated, continued with garbage / authenticated-malformed answers (response headers of every shape, first-length and chunk-length fields at the boundaries, wrong type / timestamp / salt echo, VMess response commands, malformed datagram frames and datagrams); (C) local applications name 49 odd targets (only dots, trailing dots, NUL, not UTF-8, 255 bytes, brackets, colons) over SOCKS5 CONNECT, HTTP CONNECT, plain HTTP and SOCKS5 UDP; monitors there: the panic recorder inside osv-node (location, message, innermost in-repo frame), process liveness, and after each part a fresh TCP flow and a fresh datagram exchange that must still be relayed; evaluations = inputs presented; distinct = (decoder, case) pairs + (configuration, part)",
    "exhaustive_note": "all inputs of length <= 2 for the SOCKS5 decoders and all single-byte inputs for every stream decoder state are enumerated",
    "assumptions": TB + ["a decoder may answer None, Some or Err; only panics, aborts, sanitizer reports and invalid strings are violations", "the same workload at reduced scale runs under AddressSanitizer and Miri in the thorough tier"],
    "plan": [
        {"name": "crash-native", "check": "c07"},
        {"name": "hostile-nodes", "check": "c07", "bin": "osv-e2e", "timeout": {"quick": 900, "thorough": 3000}},
        {"name": "crash-dev-profile", "check": "c07", "variant": "dev", "scale": 0.25, "tiers": ("thorough",)},
        {"name": "miri", "kind": "python", "module": "miristep", "tiers": ("thorough",), "optional": True, "shards": 16},
        {"name": "crash-asan", "check": "c07", "variant": "asan", "scale": 0.1, "tiers": ("thorough",), "optional": True, "env": {"ASAN_OPTIONS": "detect_leaks=0:halt_on_error=1:abort_on_error=0"}},
    ],
}

PROPS["C09"] = {
    "level": "exploration",
    "rule": "rounds of T in {2,4,8,16} OS threads released by a barrier, each running 24 operations over the state real flows share (one tcp::Context with its salt cache, one client context, the process-wide UDP cipher cache, one shared server UDP codec and user table; colliding session ids on purpose); every operation's outcome is known a priori through the reference implementation (round-trip equality), so a shared corruption cannot hide; monitors: result oracle, panic hook, and ThreadSanitizer on the same binary (reports with a frame in an octo_squirrel crate); the evidence reports the distinct overlap patterns observed; node level: real client/server pairs on 2/4/8 worker threads relay a burst of 24/48 concurrent TCP flows and 8 concurrent UDP applications at the same time (positional-stream and unique-id oracles per flow), and in the thorough tier the same runs on ThreadSanitizer-built nodes whose reports are collected from per-process log files; evaluations = operations + flows; distinct = rounds + flows",
    "assumptions": TB + ["schedules are sampled, not enumerated: 'held on the interleavings observed'", "TSan reports without an in-repo frame are counted as foreign and not judged", "the running-node form (2..64 concurrent flows on 2..16 worker threads) is exercised by the C01/C02 checks"],
    "plan": [
        {"name": "stress-native", "check": "c09"},
        {"name": "nodes-native", "check": "c09", "bin": "osv-e2e", "timeout": {"quick": 900, "thorough": 2400}},
        {"name": "nodes-tsan", "check": "c09", "bin": "osv-e2e", "variant": "tsan", "node_sanitizer_logs": True, "tiers": ("thorough",), "optional": True, "env": {"TSAN_OPTIONS": "halt_on_error=0:exitcode=0:report_signal_unsafe=0"}, "timeout": {"quick": 1800, "thorough": 3600}},
        {"name": "stress-tsan", "check": "c09", "variant": "tsan", "scale": {"quick": 0.15, "thorough": 0.4}, "env": {"TSAN_OPTIONS": "halt_on_error=0:exitcode=0:report_signal_unsafe=0"}, "optional": True},
    ],
}

PROPS["C10"] = {
    "level": "exploration",
    "rule": "the complete boundary grid: timestamp offsets {-2^31,-3600,-121,-120,-119,-61,-31,-30,-29,-1,0,1,29,30,31,61,119,120,121,3600,2^31} (+ ts=0, ts=u64::MAX) x all 256 type bytes x request-salt echoes {own, every single-bit flip, another flow's, zero} x all 256 VMess response authentication bytes, for every SIP022 cipher (TCP and UDP, both directions, with and without user table) and both VMess securities; replays: sequential with the hooked clock advanced by 0/1/29/30/31/59/60 s, during an incomplete original, concurrent on 2/4/8/16 threads (200 / 3000 barrier contests); thorough adds 31 s of real time and 102401 interposed handshakes; node level: a forwarder tapes what a real client sends to a real Shadowsocks 2022 server (tcp and ws), each tape is played back while its flow still runs, once afterwards, as four simultaneous copies, and truncated-then-whole - the target (flow tokens inside the relayed payload) must never be dialled twice for one flow and a fresh flow must still work; each decision of the real decoder is compared with the rule evaluated from the fields the harness put in and the pinned clock; evaluations = decisions compared; distinct = distinct (check, protocol, case)",
    "exhaustive_note": "the boundary grid is finite and enumerated completely; concurrency contests are samples",
    "assumptions": TB + ["the clock is pinned through the verif clock hook (aead_2022::now, vmess::now); the salt cache expires by Instant, which only the two real-time cases of the thorough tier exercise"],
    "plan": [
        {"name": "boundary-grid", "check": "c10"},
        {"name": "replay-nodes", "check": "c10", "bin": "osv-e2e", "timeout": {"quick": 900, "thorough": 2400}},
    ],
}

PROPS["C12"] = {
    "level": "exploration",
    "rule": "the instrumented reference decoder records (key fingerprint, nonce) of every AEAD unit it opens while decoding what the REAL encoders emitted: 60 sessions per deployment (3 of them with up to 300 writes each way) over every encrypted protocol/cipher, one 70000-chunk session per stream family (65535 for VMess: the 16-bit counter wrap is protocol-defined), Shadowsocks UDP sessions of 1500 / 10000 datagrams in both directions; a hash set finds reuse; a unit that does not open under the prescribed key and nonce is tried (diagnostic mode of the reference decoder) under the other keys of its session and the neighbouring counter values and recorded under the pair it was REALLY sealed with, so that a reuse is named instead of being lost in a decode failure; per-session randomness (request/response salts, session ids, VMess body key/IV, auth ids, connection nonces, XChaCha nonces, legacy UDP salts) is checked for repeats, stuck bits, and against an independently started second process; packet ids must strictly increase and a session preset to u64::MAX-2 must end instead of wrapping; evaluations = deployments + counter-end sessions; distinct = deployments with at least one recorded unit",
    "assumptions": TB + ["unpredictability of the generator is NOT decidable by observation (a time- or pid-seeded generator passes); only distinctness, bit balance and cross-process independence are observed", "2^64 packets / 2^96 chunks cannot be produced: the packet-id end is reached through the guarded preset hook, the chunk counter through its first byte carries"],
    "plan": [{"name": "nonce-monitor", "check": "c12"}],
}

PROPS["C14"] = {
    "level": "exploration",
    "rule": "(a) both address encodings round-tripped for IPv4/IPv6 boundary and random addresses and for domain names of EVERY length 1..255 over three alphabets (LDH, punctuation, multi-byte UTF-8) x 5 ports, each followed by a tail (empty / 1 byte / 300 bytes / a second encoded address): decode must return the identical address and leave exactly the tail, length() and try_decode_at must agree with encode, bytes must equal the reference encoding; (b) EVERY domain length 0..1024 x 3 alphabets x {SOCKS5 CONNECT, HTTP CONNECT, HTTP GET} through the real local handshake on a loopback socket pair: an accepted name must be representable and byte-identical to the request, an unrepresentable one must be refused; (c) every accepted address through the first encode of the client codecs (stream and datagram-in-stream), decoded by the reference server: identical address, identical payload; evaluations = round trips + handshakes + codec encodes; distinct = distinct addresses",
    "exhaustive_note": "all domain lengths 0..1024 per alphabet and handshake kind, and all lengths 1..255 for the encoder round trips, are enumerated",
    "assumptions": TB + ["the 'client accepts' boundary is the local handshake (get_request_addr) and, for UDP, Socks5UdpCodec", "refusing a representable but exotic name (non-LDH) is allowed; only LDH names up to 200 bytes are required to be accepted through HTTP (the handshake peeks at most 1024 bytes)"],
    "plan": [{"name": "addresses", "check": "c14"}],
}

E2E_TB = TB + ["loopback only; the nodes are the crates' own client::main()/server::main() inside osv-node (panic recorder, task-count reporter)", "progress bounds are generous (25-60 s per flow, typical latencies are milliseconds and are recorded); schedules are whatever 2/4/16 worker threads and up to 64 concurrent flows produce"]

PROPS["C01"] = {
    "level": "exploration",
    "rule": "configuration matrix protocol x cipher (10) x client-server transport (5): quick = every protocol with two transports (rotating with the seed), thorough = all 50; per configuration 16/100 scripted flows over the four README local handshakes (SOCKS5 IPv4, SOCKS5 domain, HTTP CONNECT, plain HTTP) with seeded sizes 0..300 KB (thorough: up to 4 MiB) per direction, write sizes 1..64 KiB, pauses, request/response and simultaneous streaming and every closing pattern, first one at a time then 8 at a time, every plain-tcp configuration and half of the tls/ws/wss ones behind a forwarder that re-cuts the client-server link into pieces of random size (finely, 1..8 bytes, over the first 256 bytes of each direction where the protocol heads live; Shadowsocks 2022 keeps its protocol-mandated first-read prefix whole), plus bursts of 24/64 concurrent flows (quick: every fourth configuration, thorough: all), 16/32 uploads of 64 KiB - 1 MiB that the application closes right after its last byte without reading, and flows in which the application sends nothing and the target speaks first; oracles: positional streams at application and target (order, loss, duplication, corruption, cross-flow bytes), listener identity for the dialled address, completeness for the direction the closing pattern guarantees, end-of-stream, byte-identical plain-HTTP head, node panics and liveness; evaluations = flows; non-trivial = at least one payload byte verified or a symptom; distinct = distinct (configuration, flow)",
    "assumptions": E2E_TB + ["the closing side's own bytes must arrive completely; the opposite direction only needs the prefix property after that moment (C15 semantics)", "README 'only IPv4': IPv6 targets are not part of the verdict"],
    "plan": [{"name": "relay", "check": "c01", "bin": "osv-e2e", "timeout": {"quick": 900, "thorough": 3600}}],
}

PROPS["C02"] = {
    "level": "exploration",
    "rule": "UDP-capable configurations of the README table (Shadowsocks UDP x 7 ciphers x {0,1,3 users}; VMess x {tcp,tls,ws,wss,quic} x 2 securities; Trojan x {tls,wss,quic}; quick = a rotating third): K in {1,4,6/16} application sockets x M in {1,3} echo targets (IPv4 literal and domain), 24/60 datagrams each with sizes {21,64,512,1200,1472,2000,2048,4096,16000,32000}, 1 or 3 replies per datagram (the last from a second port), plus 0/1/2-byte datagrams one at a time and a sweep over the top of the size range (40000, 60000, 65000, 65300 and every (quick: every third) size 65400..65497, one at a time from a fresh socket: whole and identical or not at all, the evidence names the largest size relayed per configuration); every datagram carries a unique id and is PRNG-filled, so the oracle checks at-most-once, whole, right target, reply to the right application socket, reply label = the target's address; where the configuration has several users a SECOND client process configured as another user runs its own applications against the same targets at the same time (nothing may cross between clients, sessions or users); a size class that is never answered while others are is a violation, sporadic loss is only counted; evaluations = datagrams sent + configurations; distinct = (configuration, application) pairs and configurations in which datagrams were verified",
    "assumptions": E2E_TB + ["sending is paced (window of 8) so that loopback does not drop", "a label naming the target the way the application addressed it (domain) counts as the target's address"],
    "plan": [{"name": "datagrams", "check": "c02", "bin": "osv-e2e", "timeout": {"quick": 900, "thorough": 3600}}],
}

PROPS["C15"] = {
    "level": "exploration",
    "rule": "one cipher per protocol over the transports (quick: a rotating third of 4x5; thorough: all, plus every cipher over tcp): batches of 12/24 (thorough 16/32/64) concurrent flows ending in every way (target closes after answering, application closes after everything / right after its request / mid-transfer / at once, target closes mid-transfer / at once, application or target resets, application closes while the target keeps its side open and silent for 100 s), applications that abandon the local handshake half-way (six partial SOCKS5 / HTTP handshakes, closed at once; the accounting waits out the client's 30 s handshake timer), flows to a refused port and to an unresolvable name, and six long flows whose client-server link is cut (FIN or RST) by a forwarder mid-transfer; oracles: positional streams (delivered first), end-of-stream on the far side, release of both ends after a link cut, and resource accounting: /proc/<pid>/fd by kind and tokio alive-task counts of client and server sampled until stable, compared with the idle baseline after each batch - growth with the number of ended flows is a violation, a constant offset is reported as warm-up state; evaluations = flows; distinct = distinct (configuration, flow)",
    "assumptions": E2E_TB + ["quiescence = descriptor and task counts unchanged for 2 s (watchdog 30 s; not settling is inconclusive)"],
    "plan": [{"name": "teardown", "check": "c15", "bin": "osv-e2e", "timeout": {"quick": 900, "thorough": 3600}}],
}

PROPS["C16"] = {
    "level": "exploration",
    "rule": "the SHIPPED binaries (built with the hook feature off) are started with every documented value: Shadowsocks server x cipher name (7 + alias) x mode (5) with the documented socket set (tcp -> TCP; udp -> UDP; tcp_and_udp -> TCP+UDP; quic -> QUIC/UDP; tcp_and_quic -> TCP+QUIC/UDP), Shadowsocks server mode (5) x transport sections {ssl, ws, ssl+ws, quic, ssl+quic} (sections change how the TCP side is spoken, never which sockets a mode opens; udp has priority over quic), VMess (both securities) and Trojan servers over tls / ws / wss / quic and with and without a quic section, client modes (3) x cipher names; observers: sockets held by the process (/proc/<pid>/fd joined with /proc/net/tcp,udp), canaries through the independent reference client / reference server configured from the same README-level credential - over plain TCP, inside TLS, inside WebSocket, over QUIC and, for the datagram relay, over UDP (so a legacy cipher must take the ordinary password on UDP as on TCP, and a mode that does not document a datagram relay must not answer one) (so the name must select exactly that algorithm, key size and credential format), exit status and log; and 19 undocumented or inconsistent values (unknown / wrong-case / empty / missing cipher, protocol and mode names, keys of 0/16/31/33 bytes or not base64, short user key, malformed UUID, missing certificate files, VMess with an unlisted cipher): an error must be reported, no panic, no listening service, no silent fallback; quick covers three cipher names per mode plus every name with tcp_and_udp, thorough the full product; evaluations = process starts; distinct = distinct configurations",
    "exhaustive_note": "thorough enumerates the documented value table (ciphers x modes) completely; the bad-value list is a fixed catalogue",
    "assumptions": TB + ["'reported' = non-zero exit status or a log line at ERROR level", "canaries use loopback echo targets"],
    "plan": [{"name": "config-table", "check": "c16", "bin": "osv-e2e", "shipped": True, "timeout": {"quick": 900, "thorough": 3600}}],
}

PROPS["C13"] = {
    "level": "exploration",
    "rule": "the real get_request_addr on a loopback socket pair with a scripted application that follows the protocol phases: the FULL product of methods {GET,POST,PUT,OPTIONS,HEAD} x 9 hosts (reg-names of 1..63 bytes, IPv4, bracketed IPv6 incl. embedded IPv4) x ports {absent,1,80,8080,65535} x 6 paths (with ':' and '://') x 5 queries (with '?', '/', 'http://') = 6750 absolute-URI requests, CONNECT x hosts x ports, header blocks up to 6 KiB, SOCKS5 CONNECT with IPv4 / IPv6 / domain (1..255 bytes), and the malformed / unsupported catalogue (origin-form, asterisk-form, missing scheme, empty host, bad ports, unbalanced brackets, CONNECT without port, SOCKS4, SOCKS5 BIND / unknown command / unknown ATYP / empty name / no acceptable method, TLS ClientHello, garbage); a sample of well-formed requests of each kind is additionally cut at EVERY byte position (two segments 25 ms apart) and sent byte by byte; for SOCKS5 and CONNECT a further sample is sent by a client that does not wait for the final reply (18 / 1500 / 5000 tunnel bytes in the same segment as the last handshake message) and with ALL handshake messages and the first tunnel bytes in one segment; oracle: independent request-target parser (refimpl::http, RFC 9112 / RFC 3986) and RFC 1928, exact leftover on the socket (payload only for SOCKS5/CONNECT, the untouched request for plain HTTP), protocol replies, refusal of everything malformed; evaluations = handshakes; distinct = distinct (request, segmentation)",
    "exhaustive_note": "the request-target grammar product is enumerated completely; every single cut position is enumerated for 6 (quick) / 40 (thorough) requests of each kind",
    "assumptions": TB + ["whole and cut deliveries follow the protocol phases (the application waits for each reply); the early-data families do not wait: 'consumes exactly the handshake bytes' is demanded for them too", "an IPv6 host is compared modulo its brackets and textual form"],
    "plan": [{"name": "local-handshake", "check": "c13"}],
}

PROPS["C08"] = {
    "level": "fault_enumeration",
    "rule": "real client and server nodes (descriptor limit 160) behind a TCP forwarder and, for Shadowsocks UDP, a datagram man-in-the-middle; the fault catalogue (38 faults: connect-and-close, silent / garbage / TLS-hello / WebSocket-upgrade peers HELD OPEN during the canary, resets, connection flood, descriptor exhaustion of server and client, garbage and half-open QUIC connections, undecodable / replayed / path-duplicated datagrams in both directions, unresolvable and refused targets over TCP and UDP, replies and requests too large to be wrapped, application and target resets, stalled and garbage local handshakes, malformed local datagrams, client-server link cut or reset mid-flow, link down or stalled while flows start or a datagram binding is created, server restart) is applied one fault after another in a seed-chosen order on one long-lived pair per configuration, so every prefix is a fault SEQUENCE; after EACH fault: a fresh TCP flow (positional-stream oracle) and a fresh UDP exchange from a new application socket must succeed, both processes must be alive and must still hold every listening / bound socket of the baseline (/proc/<pid>/fd joined with /proc/net); a failing canary is believed only if it reproduces twice on fresh pairs with that fault alone (else once with the whole history); quick = 8 configurations (every protocol and transport), one pass; thorough = all 50 protocol x transport configurations, three shuffled passes; evaluations = faults applied; distinct = distinct (configuration, history length, fault)",
    "exhaustive_note": "every applicable catalogue fault is applied in every configuration of the tier (single faults enumerated completely); sequences are the prefixes of seed-chosen permutations, i.e. samples",
    "assumptions": E2E_TB + ["'well-behaved other user' = a fresh TCP connection / a fresh UDP application socket; the same application's later traffic is not judged here", "canaries get 3 attempts of 10 s (TCP) / 2.5 s per datagram (UDP); typical latencies are recorded in the monitors"],
    "plan": [{"name": "faults", "check": "c08", "bin": "osv-e2e", "timeout": {"quick": 1200, "thorough": 5400}}],
}
