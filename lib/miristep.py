"""Plan step that runs the Miri workload (harness/osv/src/checks/mirirun.rs) in parallel shards.

Monitor = Miri itself: an `error: Undefined Behavior` block on a shard's stderr is a violation, keyed by kind and
first frame inside an octo_squirrel crate; a shard that dies without such a block (time-out, unsupported operation,
build failure) is inconclusive. Aliasing models (Stacked / Tree Borrows) are off for the verdict, see DESIGN.md 4.3.
"""
import json
import os
import re
import subprocess
import time
from concurrent.futures import ThreadPoolExecutor

ROOT = os.path.dirname(os.path.dirname(os.path.abspath(__file__)))
HARNESS = os.path.join(ROOT, "harness")
MIRIFLAGS = "-Zmiri-disable-isolation -Zmiri-ignore-leaks -Zmiri-disable-stacked-borrows"


def _cmd(sub, out=None):
    c = ["cargo", "+nightly", "miri", "run", "--target-dir", os.path.join(HARNESS, "target-miri"), "-p", "osv", "--bin", "osv-codec", "--", "miri", "--sub", sub, "--threads", "1"]
    if out:
        c += ["--out", out]
    return c


def _env():
    e = dict(os.environ)
    e["CARGO_NET_OFFLINE"] = "true"
    e["MIRIFLAGS"] = MIRIFLAGS
    e["RUST_BACKTRACE"] = "0"
    return e


def parse_ub(stderr):
    """-> list of (signature, head line, block)"""
    out = []
    lines = stderr.splitlines()
    i = 0
    repo_re = re.compile(r"(octo-squirrel(?:-client|-server)?/src/\S+?\.rs)")
    while i < len(lines):
        l = lines[i]
        if l.startswith("error: Undefined Behavior") or l.startswith("error: Data race") or "error: Undefined Behavior" in l:
            block = lines[i:i + 60]
            kind = l.split("Undefined Behavior:")[-1].strip() if "Undefined Behavior:" in l else l
            kind = re.sub(r"alloc\d+", "ALLOC", kind)
            kind = re.sub(r"0x[0-9a-f]+", "ADDR", kind)
            kind = re.sub(r"\d+", "N", kind)[:90].strip().replace(" ", "-")
            frame = "?"
            fn = ""
            for b in block:
                m = re.search(r"^\s*\d+: (.*)$", b)
                if m:
                    fn = m.group(1).strip()
                r = repo_re.search(b)
                if r:
                    short = re.sub(r"<.*", "", fn).split("::")[-1] if fn else ""
                    frame = f"{r.group(1)}::{short}"
                    break
            out.append((f"miri|{kind}|{frame}", l.strip(), block))
            i += 60
        else:
            i += 1
    return out


def run(step, tier, seed, prop, build):
    shards = step.get("shards", 14)
    work = os.path.join(ROOT, "work", prop)
    os.makedirs(work, exist_ok=True)
    t0 = time.time()
    # build once (shard 0/0 runs nothing)
    p = subprocess.run(_cmd("0/0"), cwd=HARNESS, env=_env(), stdout=subprocess.PIPE, stderr=subprocess.PIPE, text=True, timeout=step.get("build_timeout", 2400))
    if p.returncode != 0:
        return None, "the Miri build of the harness failed:\n" + "\n".join(p.stderr.splitlines()[-15:])
    build_s = time.time() - t0

    def one(k):
        out = os.path.join(work, f"miri-{k}.json")
        if os.path.exists(out):
            os.remove(out)
        try:
            q = subprocess.run(_cmd(f"{k}/{shards}", out), cwd=HARNESS, env=_env(), stdout=subprocess.PIPE, stderr=subprocess.PIPE, text=True, timeout=step.get("shard_timeout", 2400))
            return k, q.returncode, q.stderr, out
        except subprocess.TimeoutExpired:
            return k, None, "", out

    rep = {"evaluations": 0, "distinct_nontrivial": 0, "samples": [], "monitors": {}, "violations": [], "inconclusive": {}, "notes": [], "extra": {}}
    viol = {}
    with ThreadPoolExecutor(max_workers=step.get("parallel", 14)) as ex:
        for k, rc, err, out in ex.map(one, range(shards)):
            ub = parse_ub(err)
            for sig, head, block in ub:
                v = viol.setdefault(sig, {"signature": sig, "count": 0, "what": head, "witness": {"shard": k, "report": block[:40]}})
                v["count"] += 1
            if os.path.exists(out):
                r = json.load(open(out))
                rep["evaluations"] += r["evaluations"]
                rep["distinct_nontrivial"] += r["distinct_nontrivial"]
                rep["samples"].extend(r.get("samples", []))
                for m, n in r.get("monitors", {}).items():
                    rep["monitors"][m] = rep["monitors"].get(m, 0) + n
                for v in r.get("violations", []):
                    x = viol.setdefault(v["signature"], dict(v, count=0))
                    x["count"] += v["count"]
                for m, n in r.get("inconclusive", {}).items():
                    rep["inconclusive"][m] = rep["inconclusive"].get(m, 0) + n
                rep["monitors"]["miri_shards_completed"] = rep["monitors"].get("miri_shards_completed", 0) + 1
            elif not ub:
                why = "timed out" if rc is None else f"exited {rc} without a report: " + " | ".join(err.splitlines()[-3:])[:300]
                rep["inconclusive"][f"miri shard {k} {why}"] = 1
    rep["violations"] = list(viol.values())
    rep["extra"]["miri"] = {"flags": MIRIFLAGS, "shards": shards, "build_s": round(build_s, 1), "wall_s": round(time.time() - t0, 1)}
    if rep["monitors"].get("miri_shards_completed", 0) == 0 and not rep["violations"]:
        return None, "no Miri shard completed"
    return rep, None
