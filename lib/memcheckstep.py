"""Plan step that runs codec-level workloads of the release harness under valgrind memcheck, in parallel shards.

Monitor = memcheck: definedness of every bit is tracked through the real encoders and decoders; a conditional jump,
address computation or system call that depends on uninitialised memory, an invalid read / write / free is reported
with its stack. A report bears a verdict only if one of its frames lies in an octo_squirrel crate (signature =
kind + innermost such frame, line numbers stripped); the others are counted as foreign. What makes uninitialised wire
bytes visible without any sink: the workloads decode what the real encoders produced (AEAD tag comparison and
round-trip comparison branch on those bytes).

Workloads per shard k of N:  (a) the tour of every real encoder and decoder that the Miri step uses (all ciphers, both
roles, streams, datagrams, damaged and authenticated-malformed input), (b) the C03 differential workload at a small
scale with seed + k, (c) the C12 long-session workload at a small scale (optional, thorough).
A shard that dies without a parsable log is inconclusive.
"""
import json
import os
import re
import subprocess
import time
from concurrent.futures import ThreadPoolExecutor

ROOT = os.path.dirname(os.path.dirname(os.path.abspath(__file__)))
HARNESS = os.path.join(ROOT, "harness")

KIND_RE = re.compile(r"^==\d+== (Conditional jump or move depends on uninitialised value\(s\)|Use of uninitialised value of size \d+|Invalid (?:read|write) of size \d+|Invalid free\(\) / delete / delete\[\] / realloc\(\)|Mismatched free\(\) / delete / delete \[\]|Syscall param \S+ (?:points to|contains) uninitialised byte\(s\)|Source and destination overlap in \S+|Jump to the invalid address stated on the next line|Process terminating with default action of signal \d+ \(\S+\).*|Argument '\S+' of function \S+ has a fishy \(possibly negative\) value.*)")
FRAME_RE = re.compile(r"^==\d+==\s+(?:at|by) 0x[0-9A-Fa-f]+: (.+?) \((.*?)\)\s*$")
REPO_RE = re.compile(r"(octo-squirrel(?:-client|-server)?/src/\S+?\.rs)")


def parse_log(text):
    """-> (dict signature -> {count, what, report}, foreign count)"""
    out, foreign = {}, 0
    lines = text.splitlines()
    i = 0
    while i < len(lines):
        m = KIND_RE.match(lines[i])
        if not m:
            i += 1
            continue
        kind = re.sub(r"\d+", "N", m.group(1))[:80].strip().replace(" ", "-")
        block = [lines[i]]
        j = i + 1
        while j < len(lines) and re.match(r"^==\d+==\s+\S", lines[j]):
            block.append(lines[j])
            j += 1
        frame = None
        for b in block[1:]:
            if "Uninitialised value was created" in b or "Address 0x" in b:
                break  # frames behind this line describe the origin, not the use
            f = FRAME_RE.match(b)
            if not f:
                continue
            r = REPO_RE.search(f.group(2))
            if r:
                fn = re.sub(r"<.*", "", f.group(1)).split("::")[-1]
                fn = re.sub(r"[^A-Za-z0-9_]", "", fn)[:50]
                frame = f"{r.group(1)}::{fn}"
                break
        if frame is None:
            foreign += 1
        else:
            sig = f"memcheck|{kind}|{frame}"
            v = out.setdefault(sig, {"signature": sig, "count": 0, "what": m.group(1), "witness": {"report": [re.sub(r"^==\d+== ?", "", x) for x in block[:40]]}})
            v["count"] += 1
        i = j
    return out, foreign


def run(step, tier, seed, prop, build):
    shards = step.get("shards", 16)
    work = os.path.join(ROOT, "work", prop)
    os.makedirs(work, exist_ok=True)
    t0 = time.time()
    bindir = build("rel", packages=("osv",))
    if bindir is None:
        return None, "build of the release harness failed"
    if subprocess.run(["valgrind", "--version"], stdout=subprocess.PIPE, stderr=subprocess.PIPE).returncode != 0:
        return None, "valgrind is not available"
    exe = os.path.join(bindir, "osv-codec")
    thorough = tier == "thorough"
    jobs = []
    for k in range(shards):
        jobs.append(("tour", k, [exe, "miri", "--sub", f"{k}/{shards}", "--threads", "1", "--scale", "1"]))
    n_c03 = step.get("c03_shards", {"quick": 4, "thorough": 16})[tier]
    for k in range(n_c03):
        jobs.append(("c03", k, [exe, "c03", "--tier", "quick", "--seed", str(seed * 1000 + k), "--threads", "1", "--scale", str(step.get("c03_scale", {"quick": 0.002, "thorough": 0.006})[tier])]))
    if thorough:
        for k in range(step.get("c12_shards", 4)):
            jobs.append(("c12", k, [exe, "c12", "--tier", "quick", "--seed", str(seed * 1000 + k), "--threads", "1", "--scale", "0.01"]))

    def one(job):
        name, k, cmd = job
        out = os.path.join(work, f"memcheck-{name}-{k}.json")
        logf = os.path.join(work, f"memcheck-{name}-{k}.log")
        for f in (out, logf):
            if os.path.exists(f):
                os.remove(f)
        vg = ["valgrind", "--tool=memcheck", "--track-origins=yes", "--num-callers=40", "--fullpath-after=", "--error-limit=no", "--error-exitcode=0", f"--log-file={logf}"]
        e = dict(os.environ)
        e["RUST_BACKTRACE"] = "0"
        try:
            q = subprocess.run(vg + cmd + ["--out", out], cwd=ROOT, env=e, stdout=subprocess.PIPE, stderr=subprocess.PIPE, text=True, timeout=step.get("shard_timeout", {"quick": 900, "thorough": 2400})[tier])
            rc = q.returncode
        except subprocess.TimeoutExpired:
            rc = None
        log = open(logf, errors="replace").read() if os.path.exists(logf) else ""
        return name, k, rc, log, out

    rep = {"evaluations": 0, "distinct_nontrivial": 0, "samples": [], "monitors": {}, "violations": [], "inconclusive": {}, "notes": [], "extra": {}}
    viol = {}
    foreign_total = 0
    with ThreadPoolExecutor(max_workers=step.get("parallel", 16)) as ex:
        for name, k, rc, log, out in ex.map(one, jobs):
            found, foreign = parse_log(log)
            foreign_total += foreign
            for sig, v in found.items():
                x = viol.setdefault(sig, dict(v, count=0))
                x["count"] += v["count"]
                x["witness"]["shard"] = f"{name}-{k}"
            summary = re.search(r"ERROR SUMMARY: (\d+) errors from (\d+) contexts", log)
            if os.path.exists(out) and summary:
                r = json.load(open(out))
                rep["evaluations"] += r["evaluations"]
                rep["distinct_nontrivial"] += r["distinct_nontrivial"]
                for m, n in r.get("monitors", {}).items():
                    rep["monitors"][m] = rep["monitors"].get(m, 0) + n
                for v in r.get("violations", []):
                    x = viol.setdefault(v["signature"], dict(v, count=0))
                    x["count"] += v["count"]
                for m, n in r.get("inconclusive", {}).items():
                    rep["inconclusive"][m] = rep["inconclusive"].get(m, 0) + n
                rep["monitors"]["memcheck_shards_completed"] = rep["monitors"].get("memcheck_shards_completed", 0) + 1
                rep["monitors"]["memcheck_error_contexts_(all_origins)"] = rep["monitors"].get("memcheck_error_contexts_(all_origins)", 0) + int(summary.group(2))
            elif not found:
                why = "timed out" if rc is None else f"exited {rc} without a report / summary"
                rep["inconclusive"][f"memcheck shard {name}-{k} {why}"] = 1
    rep["violations"] = list(viol.values())
    if foreign_total:
        rep["violations"].append({"signature": "__foreign__", "count": foreign_total, "what": "memcheck reports without a frame in an octo_squirrel crate (not judged)", "witness": {}})
    rep["extra"]["memcheck"] = {"valgrind": subprocess.run(["valgrind", "--version"], stdout=subprocess.PIPE, text=True).stdout.strip(), "options": "--track-origins=yes --num-callers=40", "shards": len(jobs), "wall_s": round(time.time() - t0, 1)}
    if rep["monitors"].get("memcheck_shards_completed", 0) == 0 and not viol:
        return None, "no memcheck shard completed"
    return rep, None
