"""Test PKI for the TLS / WSS / QUIC configurations: a CA and a CA:FALSE leaf for localhost / 127.0.0.1,
generated with the installed openssl CLI (offline). Files land in /verif/certs (git-ignored)."""
import os
import subprocess


def ensure(root):
    d = os.path.join(root, "certs")
    need = ["ca.crt", "leaf.crt", "leaf.key"]
    if all(os.path.exists(os.path.join(d, n)) for n in need):
        return d
    os.makedirs(d, exist_ok=True)

    def run(*a):
        subprocess.run(a, cwd=d, check=True, stdout=subprocess.DEVNULL, stderr=subprocess.DEVNULL)

    run("openssl", "ecparam", "-name", "prime256v1", "-genkey", "-noout", "-out", "ca.key")
    run("openssl", "req", "-x509", "-new", "-key", "ca.key", "-sha256", "-days", "3650", "-subj", "/CN=osv test ca",
        "-addext", "basicConstraints=critical,CA:TRUE", "-addext", "keyUsage=critical,keyCertSign,cRLSign", "-out", "ca.crt")
    run("openssl", "ecparam", "-name", "prime256v1", "-genkey", "-noout", "-out", "leaf.ec.key")
    run("openssl", "pkcs8", "-topk8", "-nocrypt", "-in", "leaf.ec.key", "-out", "leaf.key")
    run("openssl", "req", "-new", "-key", "leaf.key", "-subj", "/CN=localhost", "-out", "leaf.csr")
    with open(os.path.join(d, "leaf.ext"), "w") as f:
        f.write("basicConstraints=critical,CA:FALSE\nkeyUsage=critical,digitalSignature\nextendedKeyUsage=serverAuth\nsubjectAltName=DNS:localhost,IP:127.0.0.1\n")
    run("openssl", "x509", "-req", "-in", "leaf.csr", "-CA", "ca.crt", "-CAkey", "ca.key", "-CAcreateserial", "-days", "3650", "-sha256",
        "-extfile", "leaf.ext", "-out", "leaf.crt")
    return d


if __name__ == "__main__":
    import sys
    print(ensure(os.path.dirname(os.path.dirname(os.path.abspath(__file__)))))
