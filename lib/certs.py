"""Test PKI for the TLS / WSS / QUIC configurations: a CA and a CA:FALSE leaf for localhost / 127.0.0.1,
generated with the installed openssl CLI (offline). Files land in /verif/certs (git-ignored)."""
import os
import subprocess


def ensure(root):
    d = os.path.join(root, "certs")
    need = ["ca.crt", "leaf.crt", "leaf.key"]
    os.makedirs(d, exist_ok=True)

    def run(*a):
        subprocess.run(a, cwd=d, check=True, stdout=subprocess.DEVNULL, stderr=subprocess.DEVNULL)

    if all(os.path.exists(os.path.join(d, n)) for n in need):
        impostors(d, run)
        return d

    run("openssl", "ecparam", "-name", "prime256v1", "-genkey", "-noout", "-out", "ca.key")
    run("openssl", "req", "-x509", "-new", "-key", "ca.key", "-sha256", "-days", "3650", "-subj", "/CN=osv test ca",
        "-addext", "basicConstraints=critical,CA:TRUE", "-addext", "keyUsage=critical,keyCertSign,cRLSign", "-out", "ca.crt")
    run("openssl", "ecparam", "-name", "prime256v1", "-genkey", "-noout", "-out", "leaf.ec.key")
    run("openssl", "pkcs8", "-topk8", "-nocrypt", "-in", "leaf.ec.key", "-out", "leaf.key")
    run("openssl", "req", "-new", "-key", "leaf.key", "-subj", "/CN=localhost", "-out", "leaf.csr")
    with open(os.path.join(d, "leaf.ext"), "w") as f:
        f.write("basicConstraints=critical,CA:FALSE\nkeyUsage=critical,digitalSignature\nextendedKeyUsage=serverAuth\nsubjectAltName=DNS:localhost,IP:127.0.0.1\n")
    run("openssl", "x509", "-req", "-in", "leaf.csr", "-CA", "ca.crt", "-CAkey", "ca.key", "-CAcreateserial", "-days", "3650", "-sha256",
        "-extfile", "leaf.ext", "-out", "leaf.crt")
    impostors(d, run)
    return d


def impostors(d, run):
    """Identities of servers the client must NOT accept (C05 impostor step): a self-signed certificate for localhost, a
    leaf for localhost under an unrelated CA, and a leaf under the RIGHT CA for another name."""
    need = ["self.crt", "self.key", "rogue-ca.crt", "rogue-leaf.crt", "rogue-leaf.key", "othername.crt", "othername.key"]
    if all(os.path.exists(os.path.join(d, n)) for n in need):
        return
    ext = "basicConstraints=critical,CA:FALSE\nkeyUsage=critical,digitalSignature\nextendedKeyUsage=serverAuth\nsubjectAltName=%s\n"

    def key(name):
        run("openssl", "ecparam", "-name", "prime256v1", "-genkey", "-noout", "-out", name + ".ec.key")
        run("openssl", "pkcs8", "-topk8", "-nocrypt", "-in", name + ".ec.key", "-out", name + ".key")

    key("self")
    run("openssl", "req", "-x509", "-new", "-key", "self.key", "-sha256", "-days", "3650", "-subj", "/CN=localhost",
        "-addext", "subjectAltName=DNS:localhost,IP:127.0.0.1", "-addext", "basicConstraints=critical,CA:FALSE", "-out", "self.crt")
    run("openssl", "ecparam", "-name", "prime256v1", "-genkey", "-noout", "-out", "rogue-ca.key")
    run("openssl", "req", "-x509", "-new", "-key", "rogue-ca.key", "-sha256", "-days", "3650", "-subj", "/CN=osv test ca",
        "-addext", "basicConstraints=critical,CA:TRUE", "-addext", "keyUsage=critical,keyCertSign,cRLSign", "-out", "rogue-ca.crt")
    key("rogue-leaf")
    run("openssl", "req", "-new", "-key", "rogue-leaf.key", "-subj", "/CN=localhost", "-out", "rogue-leaf.csr")
    with open(os.path.join(d, "rogue-leaf.ext"), "w") as f:
        f.write(ext % "DNS:localhost,IP:127.0.0.1")
    run("openssl", "x509", "-req", "-in", "rogue-leaf.csr", "-CA", "rogue-ca.crt", "-CAkey", "rogue-ca.key", "-CAcreateserial", "-days", "3650", "-sha256",
        "-extfile", "rogue-leaf.ext", "-out", "rogue-leaf.crt")
    key("othername")
    run("openssl", "req", "-new", "-key", "othername.key", "-subj", "/CN=other.example", "-out", "othername.csr")
    with open(os.path.join(d, "othername.ext"), "w") as f:
        f.write(ext % "DNS:other.example")
    run("openssl", "x509", "-req", "-in", "othername.csr", "-CA", "ca.crt", "-CAkey", "ca.key", "-CAcreateserial", "-days", "3650", "-sha256",
        "-extfile", "othername.ext", "-out", "othername.crt")


if __name__ == "__main__":
    import sys
    print(ensure(os.path.dirname(os.path.dirname(os.path.abspath(__file__)))))
