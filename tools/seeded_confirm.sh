#!/bin/bash
# usage: tools/seeded_confirm.sh <round-dir> <suffix1> <suffix2> Cnn ...   (e.g. /tmp/m5 i j C01 C02): confirms change1 as Cnn-<suffix1>, change2 as Cnn-<suffix2>
root=$1; s1=$2; s2=$3; shift 3
export CARGO_PROFILE_DEV_DEBUG=0 CARGO_PROFILE_TEST_DEBUG=0
for p in "$@"; do
  ( for n in 1 2; do
      id=$p-$( [ $n = 1 ] && echo $s1 || echo $s2 )
      python3 /verif/tools/seeded.py confirm $root/$p $n $id $p > $root/confirm-$id.log 2>&1
      echo "$id confirmed=$(grep -c '"confirmed": true' $root/confirm-$id.log)"
    done ) &
  while [ $(jobs -r | wc -l) -ge 4 ]; do sleep 5; done
done
wait
