#!/usr/bin/env python3
"""Print the markdown table of seeded changes (seeded/<id>/meta.json) for DESIGN.md section 16."""
import json, os, re, sys
ROOT = os.path.dirname(os.path.dirname(os.path.abspath(__file__)))
rows = []
for d in sorted(os.listdir(os.path.join(ROOT, "seeded"))):
    mp = os.path.join(ROOT, "seeded", d, "meta.json")
    if not os.path.exists(mp):
        continue
    m = json.load(open(mp))
    notes = os.path.join(ROOT, "seeded", d, "AGENT_NOTES.md")
    title = m.get("title", "")
    if not title and os.path.exists(notes):
        n = 1 if d[-1] in "acegikm" else 2
        for l in open(notes, errors="replace"):
            mm = re.match(r"^#+\s*Change\s*%d\b\s*[-:–—]*\s*(.*)" % n, l.strip(), re.I)
            if mm:
                title = mm.group(1).strip(" `*")[:110]
                break
    res = m.get("check_results", {})
    own = m.get("breaks", "?")
    caught = m.get("caught_by", [])
    status = m.get("status", "")
    if status.startswith("obsolete"):
        verdict = "obsolete (see meta.json)"
    elif own in caught:
        verdict = "caught by %s (%s)" % (own, res[own]["tier"])
    elif caught:
        verdict = "missed by %s; caught by %s" % (own, ", ".join(caught))
    elif res:
        verdict = "MISSED (%s)" % ", ".join("%s:%s" % (k, v["tier"]) for k, v in res.items())
    else:
        verdict = "not run"
    rows.append((d, own, title, verdict))
print("| id | breaks | change | result |")
print("|---|---|---|---|")
for r in rows:
    print("| %s | %s | %s | %s |" % r)
