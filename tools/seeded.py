#!/usr/bin/env python3
"""Confirm a sub-agent's seeded change in its scratch worktree, store it under /verif/seeded/<id>/,
and run the registered checks against it (patch applied to /repo, undone straight afterwards).

  tools/seeded.py confirm <worktree> <n> <id> <breaks>     # e.g. /tmp/mut/C07 1 C07-a C07
  tools/seeded.py run <id> <check> [<check> ...] [--tier quick|thorough]
"""
import json, os, re, shutil, subprocess, sys, time

ROOT = os.path.dirname(os.path.dirname(os.path.abspath(__file__)))


def sh(cmd, cwd, env=None, timeout=3600):
    e = dict(os.environ)
    e["CARGO_NET_OFFLINE"] = "true"
    if env:
        e.update(env)
    p = subprocess.run(cmd, cwd=cwd, shell=True, env=e, stdout=subprocess.PIPE, stderr=subprocess.STDOUT, text=True, timeout=timeout)
    return p.returncode, p.stdout


def confirm(wt, n, sid, breaks):
    out = os.path.join(wt, "OUT")
    patch = os.path.join(out, f"change{n}.diff")
    demo_dir = os.path.join(out, f"demo{n}")
    run_md = open(os.path.join(demo_dir, "RUN.md")).read()
    run_md = re.sub(r"\\\n\s*", " ", run_md)  # join continued shell lines
    m = re.search(r"(cargo test[^\n`]*--test[^\n`]*)", run_md)
    cmd = m.group(1).strip() if m else None
    cmd = re.sub(r"CARGO_TARGET_DIR=\S+\s*", "", cmd or "")
    cmd = cmd.replace("cargo test", "cargo test --offline") if "--offline" not in cmd else cmd
    env = {"CARGO_TARGET_DIR": os.path.join(wt, "target")}
    tests_dir = os.path.join(wt, "octo-squirrel", "tests")
    res = {"id": sid, "breaks": breaks, "demo_cmd": cmd}
    sh("git checkout -- . && rm -rf octo-squirrel/tests octo-squirrel-client/tests octo-squirrel-server/tests", wt)
    rc, o = sh(f"git apply --check {patch}", wt)
    res["applies"] = rc == 0
    demos = [f for f in os.listdir(demo_dir) if f.endswith(".rs")]
    # where to copy: RUN.md names a tests/ directory
    dest = tests_dir
    mm = re.search(r"(octo-squirrel(?:-client|-server)?)/tests", run_md)
    if mm:
        dest = os.path.join(wt, mm.group(1), "tests")
    # 1. demo on unchanged HEAD
    os.makedirs(dest, exist_ok=True)
    for f in demos:
        shutil.copy(os.path.join(demo_dir, f), dest)
    rc, o = sh(cmd, wt, env)
    res["demo_on_head"] = "pass" if rc == 0 else "FAIL"
    res["demo_on_head_tail"] = o.splitlines()[-5:]
    # 2. with the change: build, existing tests (demo moved away), demo
    shutil.rmtree(dest)
    sh(f"git apply {patch}", wt)
    rc, o = sh("cargo build --offline --workspace", wt, env)
    res["builds"] = rc == 0
    rc, o = sh("cargo test --offline --workspace", wt, env)
    res["existing_tests_with_change"] = "pass" if rc == 0 else "FAIL"
    os.makedirs(dest, exist_ok=True)
    for f in demos:
        shutil.copy(os.path.join(demo_dir, f), dest)
    rc, o = sh(cmd, wt, env)
    res["demo_with_change"] = "fail (as required)" if rc != 0 else "PASSES (change not demonstrated)"
    res["demo_with_change_tail"] = [l for l in o.splitlines() if "FAILED" in l or "panicked" in l or "test result" in l][-6:]
    shutil.rmtree(dest)
    sh("git checkout -- .", wt)
    ok = res["applies"] and res["demo_on_head"] == "pass" and res["builds"] and res["existing_tests_with_change"] == "pass" and rc != 0
    res["confirmed"] = ok
    d = os.path.join(ROOT, "seeded", sid)
    os.makedirs(os.path.join(d, "demo"), exist_ok=True)
    shutil.copy(patch, os.path.join(d, "patch.diff"))
    for f in os.listdir(demo_dir):
        shutil.copy(os.path.join(demo_dir, f), os.path.join(d, "demo"))
    notes = os.path.join(out, "NOTES.md")
    if os.path.exists(notes):
        shutil.copy(notes, os.path.join(d, "AGENT_NOTES.md"))
    meta_p = os.path.join(d, "meta.json")
    meta = json.load(open(meta_p)) if os.path.exists(meta_p) else {}
    meta.update({"id": sid, "origin": "fresh sub-agent given only the property text and a scratch worktree", "breaks": breaks, "confirmation": res})
    json.dump(meta, open(meta_p, "w"), indent=1)
    print(json.dumps(res, indent=1))
    return 0 if ok else 1


MIRROR = os.environ.get("OSV_MIRROR", "/tmp/sv")


def mirror_refresh():
    """A scratch copy of /verif whose harness points at a scratch worktree of /repo: lets seeded changes be
    screened without touching /repo while it is being worked on. Equivalent to the documented procedure
    (git -C /repo apply; ./check; git -C /repo checkout -- .) except for the paths."""
    os.makedirs(MIRROR, exist_ok=True)
    repo = os.path.join(MIRROR, "repo")
    if not os.path.exists(repo):
        sh(f"git worktree add -q --detach {repo} HEAD", "/repo")
    head = sh("git rev-parse HEAD", "/repo")[1].strip()
    sh(f"git checkout -q --detach {head} && git checkout -- .", repo)
    # the COMMITTED state of /verif (edits in progress must not leak into a screening run)
    sh(f"mkdir -p {MIRROR}/snap && rm -rf {MIRROR}/snap/* && git -C {ROOT} archive HEAD | tar -x -C {MIRROR}/snap && rsync -a --delete --exclude 'harness/target*' --exclude work --exclude evidence --exclude replay --exclude certs {MIRROR}/snap/ {MIRROR}/verif/ && mkdir -p {MIRROR}/verif/certs && rsync -a {ROOT}/certs/ {MIRROR}/verif/certs/", "/")
    sh(f"sed -i 's#/repo/#{repo}/#g' {MIRROR}/verif/harness/osv/Cargo.toml", "/")
    sh(f"sed -i 's#^REPO = \"/repo\"#REPO = \"{repo}\"#' {MIRROR}/verif/check", "/")
    return repo, os.path.join(MIRROR, "verif")


def run(sid, checks, tier, mirror=False):
    d = os.path.join(ROOT, "seeded", sid)
    patch = os.path.join(d, "patch.diff")
    if mirror:
        repo, vroot = mirror_refresh()
        rc, o = sh(f"git apply {patch}", repo)
        if rc != 0:
            print("patch does not apply:", o)
            return 2
        results = {}
        try:
            for c in checks:
                t0 = time.time()
                rc, o = sh(f"./check {c} --tier {tier}", vroot, timeout=7200)
                viol = [l for l in o.splitlines() if l.startswith("VIOLATION")]
                new = [l.strip() for l in o.splitlines() if l.strip().startswith("new:")]
                results[c] = {"tier": tier, "exit": rc, "violations": len(viol), "first_new": new[:4], "wall_s": round(time.time() - t0, 1), "how": "mirror (scratch copy of /verif against a scratch worktree of /repo carrying the patch)"}
                print(sid, c, "exit", rc, "violations", len(viol))
                for l in new[:3]:
                    print("   ", l[:200])
                if rc not in (0, 1):
                    print("\n".join(o.splitlines()[-8:]))
        finally:
            sh("git checkout -- .", repo)
        meta_p = os.path.join(d, "meta.json")
        meta = json.load(open(meta_p)) if os.path.exists(meta_p) else {"id": sid}
        meta.setdefault("check_results", {}).update(results)
        meta["caught_by"] = sorted(c for c, r in meta["check_results"].items() if r["exit"] == 1)
        json.dump(meta, open(meta_p, "w"), indent=1)
        return 0
    rc, o = sh("git status --porcelain", "/repo")
    if o.strip():
        print("refusing: /repo has uncommitted changes:\n" + o)
        return 2
    rc, o = sh(f"git apply {patch}", "/repo")
    if rc != 0:
        print("patch does not apply:", o)
        return 2
    results = {}
    try:
        for c in checks:
            t0 = time.time()
            rc, o = sh(f"./check {c} --tier {tier}", ROOT, timeout=7200)
            viol = [l for l in o.splitlines() if l.startswith("VIOLATION")]
            new = [l.strip() for l in o.splitlines() if l.strip().startswith("new:")]
            results[c] = {"tier": tier, "exit": rc, "violations": len(viol), "first_new": new[:4], "wall_s": round(time.time() - t0, 1)}
            print(c, "exit", rc, "violations", len(viol))
            for l in new[:4]:
                print("   ", l[:220])
    finally:
        sh("git checkout -- .", "/repo")
    meta_p = os.path.join(d, "meta.json")
    meta = json.load(open(meta_p)) if os.path.exists(meta_p) else {"id": sid}
    meta.setdefault("check_results", {}).update(results)
    meta["caught_by"] = sorted(c for c, r in meta["check_results"].items() if r["exit"] == 1)
    json.dump(meta, open(meta_p, "w"), indent=1)
    return 0


if __name__ == "__main__":
    a = sys.argv[1:]
    if a[0] == "confirm":
        sys.exit(confirm(a[1], a[2], a[3], a[4]))
    elif a[0] == "run":
        tier = "quick"
        if "--tier" in a:
            i = a.index("--tier")
            tier = a[i + 1]
            a = a[:i] + a[i + 2:]
        mirror = "--mirror" in a
        a = [x for x in a if x != "--mirror"]
        sys.exit(run(a[1], a[2:], tier, mirror))
