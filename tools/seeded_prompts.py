#!/usr/bin/env python3
"""Prepare a round of seeded changes: one scratch worktree of /repo and one brief per property.

  tools/seeded_prompts.py <round-dir>        e.g. /tmp/m5   -> <round-dir>/Cnn (worktree), <round-dir>/prompts/Cnn.txt

Each brief contains ONLY the property text (title, statement, quantifier), the working rules and the titles of the
changes earlier rounds produced for that property (so that the agent does not repeat them) - nothing about the checks.
A fresh sub-agent is then told: "Read the file <round-dir>/prompts/Cnn.txt and carry out the task it describes"."""
import glob, json, os, subprocess, sys
root = sys.argv[1]
props = {json.loads(l)['id']: json.loads(l) for l in open('/verif/properties.jsonl')}
titles = {}
for d in sorted(glob.glob('/verif/seeded/C*')):
    m = json.load(open(d + '/meta.json'))
    titles.setdefault(m['breaks'], []).append(m.get('title', ''))
os.makedirs(root + '/prompts', exist_ok=True)
for pid, p in props.items():
    wt = f"{root}/{pid}"
    if not os.path.exists(wt):
        subprocess.run(["git", "-C", "/repo", "worktree", "add", "-q", "--detach", wt, "HEAD"], check=True)
    os.makedirs(wt + "/OUT", exist_ok=True)
    taken = "\n".join("  - " + t for t in titles.get(pid, []) if t)
    txt = f"""You are helping to test a verification effort for the Rust project Zmax0/octo-squirrel (a proxy client/server implementing Shadowsocks AEAD and Shadowsocks 2022, VMess AEAD and Trojan over TCP, TLS, WebSocket and QUIC, with a SOCKS5/HTTP local inbound). You have your own scratch git worktree of the repository at {wt} (detached HEAD). Work ONLY inside {wt}; never touch /repo or /verif and do not read anything under /verif. There is no network: always pass --offline to cargo. Put CARGO_TARGET_DIR={wt}/target, CARGO_PROFILE_DEV_DEBUG=0 and CARGO_PROFILE_TEST_DEBUG=0 in the environment of EVERY cargo call (disk space is limited) and use at most `-j 4`.

The project is supposed to satisfy this property:

  {pid} - {p['title']}
  {p['statement']}
  It quantifies over: {p['quantifier']['text']}

Your task: produce TWO independent source changes to the repository, each of which BREAKS this property, while the workspace still compiles and the existing test suite (`cargo test --offline --workspace`) still passes. Each change must look like something a maintainer could plausibly commit (a refactoring, an optimisation, a "fix", a tidy-up, a feature) - no sabotage comments, no dead giveaways. Most important: each change must need something SPECIFIC to manifest - a particular interleaving or timing, a fault or close at a particular point, a multi-step sequence of operations, an unusual input / size / configuration, or two cooperating sites that each look fine alone. Ordinary use (a simple echo through the proxy with default settings) must NOT expose it at once. At least one of the two changes must be outside the cipher/codec code (e.g. in the relay templates, accept paths, transports, start-up/configuration code, session/binding tables, handshake glue). The two changes must be different in kind and touch different mechanisms. For this round additionally: change 1 must need TIMING, CONCURRENCY or a FAULT to manifest (a particular interleaving of two flows, a close / reset / stall / restart at a particular moment, an error return of a system call, resource exhaustion, an expiry), and change 2 must need ACCUMULATED STATE or an unusual COMBINATION to manifest (a counter or table crossing a threshold after many flows or datagrams, a cache entry outliving what it describes, a rarely used combination of configuration options, or two cooperating edits in different files that each look harmless alone).

Ideas that are already taken (do NOT produce these or close variants of them - in particular nothing that only re-keys a table or cache that the list already mentions):
{taken}

For each change i in {{1,2}} deliver:
  * {wt}/OUT/change<i>.diff - a `git diff` against the unchanged HEAD that applies with `git apply` to a clean checkout (source changes only, no test files in it);
  * {wt}/OUT/demo<i>/ - a demonstration: ONE Rust integration-test file (<name>.rs) that is copied into the `tests/` directory of one of the three crates (octo-squirrel, octo-squirrel-client, octo-squirrel-server; the directory may not exist yet) and that PASSES on the unchanged HEAD and FAILS with the change applied; plus RUN.md, which says into which crate's tests/ directory the file goes and contains the exact command as ONE line of the form `cargo test --offline -j 4 -p <crate> --test <name> -- --nocapture`. The test may use only what the crate can already use (its dependencies and dev-dependencies as they are in Cargo.toml / Cargo.lock; nothing can be downloaded; do not edit Cargo.toml). It may start the package's own binaries (env!("CARGO_BIN_EXE_<name>")) with config files it writes to a temp dir, use loopback sockets and threads, and should finish within about 60 s and be deterministic (run it 3 times on HEAD and 3 times with the change).
  * a section in {wt}/OUT/NOTES.md: title line `## Change <i> - <one-line title>`, then where it is, what it looks like, why it breaks the property, what it needs in order to manifest (a paragraph starting with `**What it needs to manifest.**`), and what you ran to confirm (build, existing tests with the change, demo on HEAD, demo with the change).

Procedure: read the code the property is about (README.md, the three crates). Make change 1, check `cargo build --offline --workspace` and `cargo test --offline --workspace`, save the diff, write the demo, verify it fails; `git checkout -- .` (and remove your tests/ directory), verify the demo passes on HEAD; then the same for change 2. Leave the worktree clean at the end (git status shows only OUT/ and target/ as untracked). Do not commit anything. If, while reading, you notice behaviour of the UNCHANGED code that already violates the property, describe it at the end of NOTES.md under `## Already in HEAD` (what input or history fails, where). When done, reply with a short summary: the two titles, files touched, and the confirmation results."""
    open(f'{root}/prompts/{pid}.txt', 'w').write(txt)
print("prepared", root)
