#!/bin/bash
# usage: tools/seeded_run.sh <mirror-k> <log-dir> id:check[,check] ...   one scratch mirror (/tmp/sv<k>) per invocation; several run side by side
k=$1; logs=$2; shift 2
export OSV_MIRROR=/tmp/sv$k
mkdir -p $logs
for spec in "$@"; do
  id=${spec%%:*}; checks=${spec#*:}
  python3 /verif/tools/seeded.py run $id ${checks//,/ } --mirror > $logs/run-$id.log 2>&1
  grep -E "exit|new:" $logs/run-$id.log | head -4
done
