#!/usr/bin/env python3
"""Fill title / needs of seeded/<id>/meta.json from the sub-agent's notes (AGENT_NOTES.md): change 1 = ids ending in
a, c, e, g; change 2 = b, d, f, h."""
import json, os, re, sys
ROOT = os.path.dirname(os.path.dirname(os.path.abspath(__file__)))
for d in sorted(os.listdir(os.path.join(ROOT, "seeded"))):
    if sys.argv[1:] and d not in sys.argv[1:]:
        continue
    mp = os.path.join(ROOT, "seeded", d, "meta.json")
    notes = os.path.join(ROOT, "seeded", d, "AGENT_NOTES.md")
    if not (os.path.exists(mp) and os.path.exists(notes)):
        continue
    m = json.load(open(mp))
    n = 1 if d[-1] in "acegikm" else 2
    text = open(notes, errors="replace").read()
    secs = re.split(r"(?m)^#+\s*Change\s*(\d)\b", text)
    body, title = "", m.get("title", "")
    for i in range(1, len(secs) - 1, 2):
        if int(secs[i]) == n:
            rest = secs[i + 1]
            first, _, body = rest.partition("\n")
            if not title:
                title = first.strip(" -:–—`*")[:160]
            break
    m["title"] = title
    if "needs" not in m and body:
        mm = re.search(r"(?is)\*\*What it needs[^*]*\*\*[.:]?\s*(.+?)(?:\n\s*\n|\n\*\*|\Z)", body) or re.search(r"(?is)needs? (?:in order )?to manifest[^\n]*\n+(.+?)(?:\n\s*\n|\Z)", body)
        if mm:
            m["needs"] = re.sub(r"\s+", " ", mm.group(1)).strip()[:700]
    json.dump(m, open(mp, "w"), indent=1)
    print(d, "|", m["title"][:90], "|", (m.get("needs") or "")[:60])
